// Package check: driver — loads /repo with the harness overlay, runs jobs,
// discharges obligations, replays models natively, writes evidence.
package check

import (
	"fmt"
	"os"
	"path/filepath"
	"sort"
	"strings"

	"golang.org/x/tools/go/packages"
	"golang.org/x/tools/go/ssa"
	"golang.org/x/tools/go/ssa/ssautil"
)

var (
	RepoDir  = envOr("VERIF_REPO", "/repo")
	VerifDir = envOr("VERIF_ROOT", "/verif")
	PkgPath  = "github.com/bobertlo/gmars"
)

func envOr(k, d string) string {
	if v := os.Getenv(k); v != "" {
		return v
	}
	return d
}

// harnessFiles lists the harness sources (all of /verif/harness/*.go).
func harnessFiles() ([]string, error) {
	fs, err := filepath.Glob(filepath.Join(VerifDir, "harness", "*.go"))
	sort.Strings(fs)
	return fs, err
}

// overlayContents maps virtual files in /repo to their contents: every
// harness file into the gmars package, and (for the command-line property)
// the files of harness_main plus package-main copies of the intrinsics and
// the replay driver into cmd/gmars.
func overlayContents(withTest bool) (map[string][]byte, error) {
	fs, err := harnessFiles()
	if err != nil {
		return nil, err
	}
	m := map[string][]byte{}
	for _, f := range fs {
		b, err := os.ReadFile(f)
		if err != nil {
			return nil, err
		}
		m[filepath.Join(RepoDir, "zz_verif_"+filepath.Base(f))] = b
	}
	driver, err := os.ReadFile(filepath.Join(VerifDir, "harness", "replay_test.go.txt"))
	if err != nil {
		return nil, err
	}
	if withTest {
		m[filepath.Join(RepoDir, "zz_verif_replay_test.go")] = driver
	}
	// package main
	mains, _ := filepath.Glob(filepath.Join(VerifDir, "harness_main", "*.go"))
	sort.Strings(mains)
	if len(mains) > 0 {
		cmdDir := filepath.Join(RepoDir, "cmd", "gmars")
		for _, f := range mains {
			b, err := os.ReadFile(f)
			if err != nil {
				return nil, err
			}
			m[filepath.Join(cmdDir, "zz_verif_"+filepath.Base(f))] = b
		}
		rt, err := os.ReadFile(filepath.Join(VerifDir, "harness", "rt.go"))
		if err != nil {
			return nil, err
		}
		m[filepath.Join(cmdDir, "zz_verif_rt.go")] = []byte(strings.Replace(string(rt), "package gmars", "package main", 1))
		if withTest {
			m[filepath.Join(cmdDir, "zz_verif_replay_test.go")] = []byte(strings.Replace(string(driver), "package gmars", "package main", 1))
		}
	}
	return m, nil
}

func goEnv() []string {
	env := os.Environ()
	var out []string
	for _, e := range env {
		if strings.HasPrefix(e, "GOFLAGS=") || strings.HasPrefix(e, "GOPROXY=") || strings.HasPrefix(e, "GOSUMDB=") || strings.HasPrefix(e, "GOTOOLCHAIN=") {
			continue
		}
		out = append(out, e)
	}
	return append(out, "GOFLAGS=-mod=readonly", "GOPROXY=off", "GOSUMDB=off", "GOTOOLCHAIN=local")
}

type Program struct {
	Prog *ssa.Program
	Pkg  *ssa.Package
	Cmd  *ssa.Package
}

// Load builds SSA for the gmars package (with harness overlay) from the
// current working tree of /repo.
func Load(withCmd bool) (*Program, error) {
	overlay, err := overlayContents(false)
	if err != nil {
		return nil, err
	}
	cfg := &packages.Config{
		Mode:    packages.NeedName | packages.NeedFiles | packages.NeedCompiledGoFiles | packages.NeedImports | packages.NeedDeps | packages.NeedTypes | packages.NeedSyntax | packages.NeedTypesInfo | packages.NeedTypesSizes,
		Dir:     RepoDir,
		Env:     goEnv(),
		Overlay: overlay,
	}
	patterns := []string{"."}
	if withCmd {
		patterns = append(patterns, "./cmd/gmars")
	}
	pkgs, err := packages.Load(cfg, patterns...)
	if err != nil {
		return nil, err
	}
	var errs []string
	packages.Visit(pkgs, nil, func(p *packages.Package) {
		for _, e := range p.Errors {
			errs = append(errs, e.Error())
		}
	})
	if len(errs) > 0 {
		return nil, fmt.Errorf("package load errors (does /repo build?):\n%s", strings.Join(errs, "\n"))
	}
	prog, spkgs := ssautil.AllPackages(pkgs, ssa.InstantiateGenerics)
	prog.Build()
	res := &Program{Prog: prog}
	for i, p := range pkgs {
		if p.PkgPath == PkgPath {
			res.Pkg = spkgs[i]
		} else if strings.HasSuffix(p.PkgPath, "/cmd/gmars") {
			res.Cmd = spkgs[i]
		}
	}
	if res.Pkg == nil {
		return nil, fmt.Errorf("package %s not found", PkgPath)
	}
	return res, nil
}
