package check

func init() {
	Properties = append(Properties, &PropertySpec{
		ID: "D01",
		Harnesses: []HarnessSpec{
			{Name: "C01_step", Expect: []string{"end"}, Quick: []Params{{"M": 5, "P": 2, "amode": 7, "bmode": 5},{"M": 13, "P": 2, "amode": 7, "bmode": 5}, {"M": 5, "P": 2}}},
			{Name: "C04_exec", Expect: []string{"end"}, Quick: []Params{{"M": 3, "P": 1}, {"M": 5, "P": 2},{"M": 8, "P": 3}, {"M": 13, "P": 2}, {"M": 16, "P": 2}}},
			{Name: "C11_step", Expect: []string{"end"}, Quick: []Params{{"M": 3, "P": 1}, {"M": 5, "P": 2},{"M": 8, "P": 3}, {"M": 13, "P": 2}, {"M": 16, "P": 2}}},
		},
	})
}
