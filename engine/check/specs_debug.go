package check

func init() {
	Properties = append(Properties, &PropertySpec{
		ID: "D01",
		Harnesses: []HarnessSpec{
			{Name: "C01_step", Expect: []string{"end"}, Quick: grid([]string{"M", "P", "op", "opmode", "amode", "bmode", "uf"}, []int{8}, []int{2}, []int{-1}, []int{-1}, []int{1, 4, 7}, []int{5, 6}, []int{1})},
			{Name: "C01_step_canary", Role: "canary", Quick: grid([]string{"M", "P", "op", "opmode", "amode", "bmode", "uf"}, []int{8}, []int{2}, []int{-1}, []int{-1}, []int{1}, []int{5}, []int{1})},
		},
	})
}
