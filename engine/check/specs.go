package check

// grid builds the cartesian product of parameter values.
func grid(names []string, vals ...[]int) []Params {
	out := []Params{{}}
	for i, n := range names {
		var next []Params
		for _, p := range out {
			for _, v := range vals[i] {
				q := Params{}
				for k, x := range p {
					q[k] = x
				}
				q[n] = v
				next = append(next, q)
			}
		}
		out = next
	}
	return out
}

func seq(a, b int) []int {
	var out []int
	for i := a; i <= b; i++ {
		out = append(out, i)
	}
	return out
}

var Properties []*PropertySpec

func FindProperty(id string) *PropertySpec {
	for _, p := range Properties {
		if p.ID == id {
			return p
		}
	}
	return nil
}

// simCases: (M,P) pairs x all 64 addressing-mode pairs (the case split that
// keeps every query within seconds, see DESIGN.md section 3).
func simCases(mp [][2]int) []Params {
	var out []Params
	for _, c := range mp {
		for a := 0; a < 8; a++ {
			for b := 0; b < 8; b++ {
				out = append(out, Params{"M": c[0], "P": c[1], "amode": a, "bmode": b})
			}
		}
	}
	return out
}

func pairs(ms, ps []int) [][2]int {
	var out [][2]int
	for _, m := range ms {
		for _, p := range ps {
			out = append(out, [2]int{m, p})
		}
	}
	return out
}

var quickMP = [][2]int{{3, 1}, {4, 2}, {5, 2}, {8, 3}}

func init() {
	Properties = append(Properties, &PropertySpec{
		ID: "C01",
		Harnesses: []HarnessSpec{
			{Name: "C01_step", Expect: []string{"end", "core-equal", "queue-equal"},
				Quick:    simCases(quickMP),
				Thorough: simCases(pairs(append(seq(3, 16), 24, 32), []int{1, 2, 3, 4}))},
			{Name: "C01_step_canary", Role: "canary",
				Quick:    []Params{{"M": 5, "P": 2, "amode": 0, "bmode": 5}, {"M": 8, "P": 3, "amode": 7, "bmode": 1}},
				Thorough: []Params{{"M": 5, "P": 2, "amode": 0, "bmode": 5}, {"M": 8, "P": 3, "amode": 7, "bmode": 1}}},
		},
		Outside: []string{"core sizes other than the listed cases", "read/write limits larger than the core", "process limits above 4"},
	})
}
