package check

// grid builds the cartesian product of parameter values.
func grid(names []string, vals ...[]int) []Params {
	out := []Params{{}}
	for i, n := range names {
		var next []Params
		for _, p := range out {
			for _, v := range vals[i] {
				q := Params{}
				for k, x := range p {
					q[k] = x
				}
				q[n] = v
				next = append(next, q)
			}
		}
		out = next
	}
	return out
}

func seq(a, b int) []int {
	var out []int
	for i := a; i <= b; i++ {
		out = append(out, i)
	}
	return out
}

var Properties []*PropertySpec

func FindProperty(id string) *PropertySpec {
	for _, p := range Properties {
		if p.ID == id {
			return p
		}
	}
	return nil
}

// simCases: (M,P) pairs x all 64 addressing-mode pairs (the case split that
// keeps every query within seconds, see DESIGN.md section 3).
func simCases(mp [][2]int) []Params {
	var out []Params
	for _, c := range mp {
		for a := 0; a < 8; a++ {
			for b := 0; b < 8; b++ {
				out = append(out, Params{"M": c[0], "P": c[1], "amode": a, "bmode": b})
			}
		}
	}
	return out
}

// rotCases: (M,P) x addressing-mode pairs x concrete pc x concrete shift k
func rotCases(mp [][2]int) []Params {
	var out []Params
	for _, c := range mp {
		for a := 0; a < 8; a++ {
			for b := 0; b < 8; b++ {
				for pc := 0; pc < c[0]; pc++ {
					for k := 0; k < c[0]; k++ {
						out = append(out, Params{"M": c[0], "P": c[1], "amode": a, "bmode": b, "pc": pc, "k": k})
					}
				}
			}
		}
	}
	return out
}

func pairs(ms, ps []int) [][2]int {
	var out [][2]int
	for _, m := range ms {
		for _, p := range ps {
			out = append(out, [2]int{m, p})
		}
	}
	return out
}

var quickMP = [][2]int{{3, 1}, {4, 2}, {5, 2}, {8, 3}}

func init() {
	Properties = append(Properties, &PropertySpec{
		ID: "C01",
		Harnesses: []HarnessSpec{
			{Name: "C01_step", Expect: []string{"end", "core-equal", "queue-equal"},
				Quick:    simCases(quickMP),
				Thorough: simCases(pairs(append(seq(3, 16), 24, 32), []int{1, 2, 3, 4}))},
			{Name: "C01_step_canary", Role: "canary",
				Quick:    []Params{{"M": 5, "P": 2, "amode": 0, "bmode": 5}, {"M": 8, "P": 3, "amode": 7, "bmode": 1}},
				Thorough: []Params{{"M": 5, "P": 2, "amode": 0, "bmode": 5}, {"M": 8, "P": 3, "amode": 7, "bmode": 1}}},
		},
		Outside: []string{"core sizes other than the listed cases", "read/write limits larger than the core", "process limits above 4"},
	})

	mpQuick := grid([]string{"M", "P"}, []int{3, 4, 5, 8, 13}, []int{1, 2, 3})
	mpThorough := grid([]string{"M", "P"}, append(seq(3, 16), 24, 32), []int{1, 2, 3, 4})
	Properties = append(Properties, &PropertySpec{
		ID: "C11",
		Harnesses: []HarnessSpec{
			{Name: "C11_step", Expect: []string{"end", "write-limit", "read-limit"}, Quick: mpQuick, Thorough: mpThorough},
			{Name: "C11_step_canary", Role: "canary",
				Quick:    []Params{{"M": 5, "P": 2}, {"M": 8, "P": 3}},
				Thorough: []Params{{"M": 5, "P": 2}, {"M": 8, "P": 3}}},
			{Name: "C11_nolimit", Expect: []string{"end", "core-equal"},
				Quick:    simCases(quickMP),
				Thorough: simCases(pairs(append(seq(3, 16), 24), []int{1, 2, 3}))},
		},
		Outside: []string{"core sizes other than the listed cases", "operand fetches that the simulator does not report (only the queued targets, changed cells and reported reads are observable)"},
	})
	Properties = append(Properties, &PropertySpec{
		ID: "C04",
		Harnesses: []HarnessSpec{
			{Name: "C04_exec", Expect: []string{"end", "inv-fields-below-M"}, Quick: mpQuick, Thorough: mpThorough},
			{Name: "C04_exec_biglimits", Expect: []string{"end", "inv-fields-below-M"},
				Quick:    grid([]string{"M", "P"}, []int{3, 5, 8}, []int{1, 2}),
				Thorough: grid([]string{"M", "P"}, seq(3, 16), []int{1, 2, 3})},
			{Name: "C04_step", Expect: []string{"end", "inv-living-count"},
				Quick:    grid([]string{"M", "P", "n"}, []int{3, 4, 5}, []int{1, 2}, []int{1, 2}),
				Thorough: append(grid([]string{"M", "P", "n"}, []int{3, 4, 5, 8, 13}, []int{1, 2, 3}, []int{1, 2}), grid([]string{"M", "P", "n"}, []int{3, 4}, []int{1, 2}, []int{3})...)},
			{Name: "C04_create", Expect: []string{"refused"},
				Quick:    grid([]string{"M"}, []int{0, 1, 2}),
				Thorough: grid([]string{"M"}, []int{0, 1, 2})},
			{Name: "C04_create", Expect: []string{"refused", "accepted"},
				Quick:    grid([]string{"M"}, []int{3, 4, 8, 64}),
				Thorough: grid([]string{"M"}, []int{3, 4, 5, 8, 13, 64, 80, 256})},
			{Name: "C04_spawn", Expect: []string{"end"},
				Quick:    grid([]string{"M", "P", "len"}, []int{3, 5, 8}, []int{1, 2}, []int{0, 1, 3}),
				Thorough: grid([]string{"M", "P", "len"}, []int{3, 4, 5, 8, 13}, []int{1, 2, 3}, []int{0, 1, 2, 3})},
		},
		Outside: []string{"core sizes other than the listed cases (creation: the core size is a case parameter, every other field is symbolic in 0..2^20)", "more than 3 warriors"},
	})

	Properties = append(Properties, &PropertySpec{
		ID: "C12",
		Harnesses: []HarnessSpec{
			// the task queue keeps any address (up to 2^40) unchanged: positions in
			// a large core are not treated differently from those in a small one
			{Name: "C02_fifo", Expect: []string{"end", "pop-is-first-in-first-out"}, Witnesses: 4,
				Quick:    grid([]string{"P"}, []int{1, 2, 3}),
				Thorough: grid([]string{"P"}, seq(1, 4))},
			{Name: "C12_step", Expect: []string{"end", "rotated-core-equal"}, Witnesses: 1,
				Quick:    rotCases([][2]int{{3, 1}, {4, 2}, {5, 2}}),
				Thorough: rotCases([][2]int{{3, 1}, {3, 2}, {4, 2}, {5, 2}, {5, 3}, {6, 2}, {7, 2}, {8, 3}, {9, 2}, {11, 2}, {13, 2}})},
			{Name: "C12_step_canary", Role: "canary",
				Quick:    []Params{{"M": 5, "P": 2, "amode": 0, "bmode": 0, "pc": 1, "k": 2}},
				Thorough: []Params{{"M": 5, "P": 2, "amode": 0, "bmode": 0, "pc": 1, "k": 2}}},
			{Name: "C12_spawn", Expect: []string{"end", "rotated-core-equal"}, Witnesses: 4,
				Quick:    grid([]string{"M", "P", "len", "concrete"}, []int{3, 5}, []int{1}, []int{1, 3}, []int{1}),
				Thorough: grid([]string{"M", "P", "len", "concrete"}, []int{3, 4, 5, 8}, []int{1, 2}, []int{1, 2, 3}, []int{1})},
			{Name: "C12_spawn", Expect: []string{"end", "rotated-core-equal"},
				Quick:    grid([]string{"M", "P", "len"}, []int{3, 5, 8}, []int{1, 2}, []int{1, 3}),
				Thorough: grid([]string{"M", "P", "len"}, []int{3, 4, 5, 8, 13, 16}, []int{1, 2, 3}, []int{1, 2, 3})},
		},
		Outside: []string{"core sizes other than the listed cases", "whole battles are covered by induction: the step harness is one task from an arbitrary state, the cycle harness one scheduling round, the spawn harness the base case"},
	})
	Properties = append(Properties, &PropertySpec{
		ID: "C15",
		Harnesses: []HarnessSpec{
			{Name: "C15_step", Expect: []string{"end", "changed-cell-reported"}, Quick: mpQuick, Thorough: mpThorough},
			{Name: "C15_maytouch", Expect: []string{"end", "reported-cell-may-be-touched"},
				Quick:    simCases(quickMP),
				Thorough: simCases(pairs(append(seq(3, 16), 24, 32), []int{1, 2, 3}))},
			{Name: "C15_cycle", Expect: []string{"end", "warrior-terminate-iff-death"},
				Quick:    grid([]string{"M", "P", "n"}, []int{3, 4, 5}, []int{1, 2}, []int{1, 2}),
				Thorough: grid([]string{"M", "P", "n"}, []int{3, 4, 5, 8, 13}, []int{1, 2, 3}, []int{1, 2, 3})},
			{Name: "C15_spawn", Expect: []string{"end"},
				Quick:    grid([]string{"M"}, []int{3, 5, 8}),
				Thorough: grid([]string{"M"}, []int{3, 4, 5, 8, 13, 16})},
			{Name: "C15_recorder", Expect: []string{"end", "recorder-touched-cell"},
				Quick:    grid([]string{"M", "len", "wi"}, []int{3, 5, 8}, []int{0, 1, 3}, []int{0, 1}),
				Thorough: grid([]string{"M", "len", "wi"}, []int{3, 4, 5, 8, 13, 16}, []int{0, 1, 2, 3}, []int{0, 1})},
		},
		Outside: []string{"core sizes other than the listed cases", "the recorder property is one report from an arbitrary recorder state (inductive over the report stream)"},
	})

	Properties = append(Properties, &PropertySpec{
		ID: "C02",
		Harnesses: []HarnessSpec{
			{Name: "C02_pop", Expect: []string{"pop-empty", "pop-non-empty"},
				Quick:    grid([]string{"P"}, []int{1, 2, 3, 4}),
				Thorough: grid([]string{"P"}, seq(1, 8))},
			{Name: "C02_queue", Expect: []string{"end", "push-appends-at-back"},
				Quick:    grid([]string{"P"}, []int{1, 2, 3, 4}),
				Thorough: grid([]string{"P"}, seq(1, 8))},
			{Name: "C02_fifo", Expect: []string{"end", "pop-is-first-in-first-out"}, Witnesses: 4,
				Quick:    grid([]string{"P"}, []int{1, 2, 3, 4}),
				Thorough: grid([]string{"P"}, seq(1, 6))},
			{Name: "C02_load", Expect: []string{"end", "one-task-at-the-entry-point"}, Witnesses: 4,
				Quick:    grid([]string{"M", "len"}, []int{3, 5, 8}, []int{1, 2, 3}),
				Thorough: grid([]string{"M", "len"}, []int{3, 4, 5, 8, 13, 16}, []int{1, 2, 3})},
			{Name: "C02_split", Expect: []string{"end", "fallthrough-first"},
				Quick:    grid([]string{"M", "P"}, []int{3, 5, 8}, []int{1, 2, 3}),
				Thorough: grid([]string{"M", "P"}, []int{3, 4, 5, 8, 13, 16}, []int{1, 2, 3, 4})},
			{Name: "C02_cycle", Expect: []string{"end", "return-value-equal", "executed-pcs-equal"},
				Quick:    grid([]string{"M", "P", "n"}, []int{3, 4, 5}, []int{1, 2}, []int{1, 2}),
				Thorough: append(grid([]string{"M", "P", "n"}, []int{3, 4, 5, 8}, []int{1, 2, 3}, []int{1, 2}), Params{"M": 3, "P": 2, "n": 3})},
			// three warriors with the task step restricted to DAT / NOP / SPL
			// (scheduling does not look at what a task does beyond its queue)
			{Name: "C02_cycle3", Expect: []string{"end", "return-value-equal"},
				Quick:    grid([]string{"M", "P", "n"}, []int{3, 5}, []int{1, 2}, []int{3, 4}),
				Thorough: grid([]string{"M", "P", "n"}, []int{3, 5, 8}, []int{1, 2, 3}, []int{3, 4})},
			{Name: "C02_cycle_canary", Role: "canary",
				Quick:    []Params{{"M": 3, "P": 1, "n": 2}},
				Thorough: []Params{{"M": 3, "P": 1, "n": 2}, {"M": 4, "P": 2, "n": 2}}},
			{Name: "C02_run", Expect: []string{"end", "result-is-alive-flag"}, TerminationClaim: true,
				Quick:    grid([]string{"M", "P", "n", "maxCycles"}, []int{3}, []int{1, 2}, []int{1, 2}, []int{1, 2, 3}),
				Thorough: append(append(grid([]string{"M", "P", "n", "maxCycles"}, []int{3, 4}, []int{1, 2}, []int{1}, []int{1, 2, 3, 4, 5}),
					grid([]string{"M", "P", "n", "maxCycles"}, []int{3, 4}, []int{1, 2}, []int{2}, []int{1, 2, 3})...),
					grid([]string{"M", "P", "n", "maxCycles"}, []int{3, 4}, []int{1, 2}, []int{3}, []int{1})...)},
		},
		Outside: []string{"more than 3 warriors (2 in the quick tier); in the Run-vs-stepping harness cycle limits above 5 with one warrior, above 3 with two, above 1 with three (the cycle harness is inductive: arbitrary cycle count and limit)", "the task step itself (C01)"},
	})

	Properties = append(Properties, &PropertySpec{
		ID: "C13",
		Harnesses: []HarnessSpec{
			{Name: "C13_sequence", Expect: []string{"end"}, TerminationClaim: true, Witnesses: 4,
				Quick:    []Params{{"M": 3, "P": 1, "L": 2, "maxCycles": 2}, {"M": 3, "P": 2, "L": 2, "maxCycles": 1}, {"M": 3, "P": 2, "L": 1, "maxCycles": 2, "prefix": 1}},
				Thorough: []Params{{"M": 3, "P": 1, "L": 2, "maxCycles": 2}, {"M": 3, "P": 2, "L": 2, "maxCycles": 1}, {"M": 3, "P": 2, "L": 1, "maxCycles": 2, "prefix": 1},
					{"M": 4, "P": 2, "L": 2, "maxCycles": 2}, {"M": 4, "P": 1, "L": 2, "maxCycles": 3}, {"M": 3, "P": 1, "L": 1, "maxCycles": 2, "prefix": 2}, {"M": 4, "P": 2, "L": 1, "maxCycles": 2, "prefix": 1}}},
			{Name: "C13_respawn", Expect: []string{"started", "refused"}, Witnesses: 4,
				Quick:    grid([]string{"M", "P", "n"}, []int{3}, []int{1, 2}, []int{1, 2}),
				Thorough: grid([]string{"M", "P", "n"}, []int{3, 4, 5}, []int{1, 2}, []int{1, 2, 3})},
			{Name: "C13_inapplicable", Expect: []string{"end"}, TerminationClaim: true, Witnesses: 2,
				Quick:    grid([]string{"M", "P", "n", "maxCycles", "run"}, []int{3}, []int{1, 2}, []int{0, 1, 2}, []int{2}, []int{0, 1}),
				Thorough: grid([]string{"M", "P", "n", "maxCycles", "run"}, []int{3, 4}, []int{1, 2}, []int{0, 1, 2, 3}, []int{1, 3}, []int{0, 1})},
			{Name: "C13_reset_fresh", Expect: []string{"end", "reset-equals-fresh"}, Witnesses: 4,
				Quick:    grid([]string{"M", "P", "n", "steps", "maxCycles", "codelen", "subset"}, []int{3}, []int{1}, []int{2}, []int{0, 1}, []int{2}, []int{1}, []int{1}),
				Thorough: grid([]string{"M", "P", "n", "steps", "maxCycles", "codelen", "subset"}, []int{3}, []int{1, 2}, []int{2}, []int{0, 1}, []int{2}, []int{1, 2}, []int{1})},
			{Name: "C13_reset_fresh", Expect: []string{"end", "reset-equals-fresh"}, Witnesses: 4,
				Quick:    grid([]string{"M", "P", "n", "steps", "maxCycles", "codelen"}, []int{3}, []int{1, 2}, []int{1, 2}, []int{0, 1}, []int{2}, []int{1, 2}),
				Thorough: grid([]string{"M", "P", "n", "steps", "maxCycles", "codelen"}, []int{3, 4}, []int{1, 2}, []int{1, 2}, []int{0, 1, 2}, []int{3}, []int{1, 2})},
		},
		Outside: []string{"sequences longer than the listed depth (2 calls from a fresh simulator, or 1 call after a prefix of 1..2 spawned warriors; depth 3, and depth 2 after a prefix, did not finish within the time budget)", "cores other than 3..4 cells", "sampling beyond the exhaustive depth is not done (solver-based only)"},
	})

	Properties = append(Properties, &PropertySpec{
		ID: "C03", UsesEvalModel: true,
		Harnesses: []HarnessSpec{
			{Name: "C03_default94", Expect: []string{"end", "default-modifier"}},
			{Name: "C03_legal88", Expect: []string{"accepted", "rejected"}},
			{Name: "C03_symbols", Expect: []string{"end", "denoted-instruction"}, Witnesses: 8,
				Quick:    grid([]string{"entry", "style"}, []int{0, 1, 2, 3}, []int{0, 1}),
				Thorough: grid([]string{"entry", "style"}, []int{0, 1, 2, 3}, []int{0, 1, 2, 3, 4, 5})},
			{Name: "C03_labels", Expect: []string{"end"}, Witnesses: 4,
				Quick:    grid([]string{"form"}, seq(0, 5)),
				Thorough: grid([]string{"form"}, seq(0, 5))},
			{Name: "C03_text", Expect: []string{"end", "denoted-instruction"}, Witnesses: 8, TerminationClaim: true,
				Quick:    grid([]string{"dialect"}, []int{0, 1}),
				Thorough: grid([]string{"dialect"}, []int{0, 1})},
			// line-level denotation (lone operands with and without an explicit
			// modifier, operand values) and the predefined constants: the
			// harnesses are shared with C06 and C07
			{Name: "C06_line", Expect: []string{"accepted", "rejected", "denoted-fields"}, Witnesses: 6,
				Quick:    grid([]string{"M", "dialect", "op", "values"}, []int{8}, []int{0, 1}, []int{0, 1}, []int{1}),
				Thorough: grid([]string{"M", "dialect", "op", "values"}, []int{8, 8000}, []int{0, 1}, []int{0, 1, 11}, []int{1})},
			{Name: "C06_line", Expect: []string{"done"}, Witnesses: 6,
				Quick:    grid([]string{"M", "dialect", "op"}, []int{8}, []int{0, 1}, seq(0, 16)),
				Thorough: grid([]string{"M", "dialect", "op"}, []int{8, 8000}, []int{0, 1}, seq(0, 16))},
			{Name: "C07_constants", Expect: []string{"end"}},
		},
	})
	Properties = append(Properties, &PropertySpec{
		ID: "C07", UsesEvalModel: true,
		Harnesses: []HarnessSpec{
			{Name: "C07_signs", Expect: []string{"end", "sign-stage-preserves-meaning"}, Witnesses: 8,
				Quick:    grid([]string{"L"}, seq(0, 5)),
				Thorough: grid([]string{"L"}, seq(0, 6))},
			{Name: "C07_glue", Expect: []string{"accepted", "value-equals-reference"}, Witnesses: 8,
				Quick:    grid([]string{"depth"}, []int{0}),
				Thorough: grid([]string{"depth"}, []int{0})},
			{Name: "C07_glue", Expect: []string{"accepted", "rejected", "value-equals-reference"}, Witnesses: 8,
				Quick:    grid([]string{"depth"}, []int{1}),
				Thorough: grid([]string{"depth"}, []int{1})},
			{Name: "C07_assert", Expect: []string{"accepted", "rejected"}},
			{Name: "C07_equ", Expect: []string{"end", "nested-equ-value"}, Witnesses: 4},
			{Name: "C07_constants", Expect: []string{"end"}},
		},
	})

	Properties = append(Properties, &PropertySpec{
		ID: "C06", UsesEvalModel: true,
		Harnesses: []HarnessSpec{
			{Name: "C06_line", Expect: []string{"done", "accepted", "fields-below-M", "denoted-modes"}, Witnesses: 6,
				Quick:    grid([]string{"M", "dialect", "op"}, []int{8, 8000}, []int{1}, seq(0, 16)),
				Thorough: grid([]string{"M", "dialect", "op"}, []int{3, 8, 8000, 8192, 55440}, []int{1}, seq(0, 16))},
			{Name: "C06_line", Expect: []string{"done"}, Witnesses: 6,
				Quick:    grid([]string{"M", "dialect", "op"}, []int{8, 8000}, []int{0}, seq(0, 16)),
				Thorough: grid([]string{"M", "dialect", "op"}, []int{3, 8, 8000, 8192, 55440}, []int{0}, seq(0, 16))},
			{Name: "C06_line", Expect: []string{"rejected"},
				Quick:    grid([]string{"M", "dialect", "op"}, []int{8}, []int{0, 1}, []int{17}),
				Thorough: grid([]string{"M", "dialect", "op"}, []int{8, 8000}, []int{0, 1}, []int{17})},
			{Name: "C06_line", Expect: []string{"accepted", "rejected", "denoted-fields"}, Witnesses: 6,
				Quick:    grid([]string{"M", "dialect", "op", "values"}, []int{8, 8000}, []int{0, 1}, []int{0, 1}, []int{1}),
				Thorough: grid([]string{"M", "dialect", "op", "values"}, []int{3, 8, 8000, 8192, 55440}, []int{0, 1}, []int{0, 1, 11}, []int{1})},
			{Name: "C06_program", Expect: []string{"done"}, Witnesses: 4,
				Quick:    grid([]string{"M", "n", "max", "dir"}, []int{8000}, []int{0, 1, 2, 3}, []int{0, 1, 2, 3}, []int{0, 1, 2, 3}),
				Thorough: grid([]string{"M", "n", "max", "dir"}, []int{8, 8000}, []int{0, 1, 2, 3, 4}, []int{0, 1, 2, 3, 4}, []int{0, 1, 2, 3})},
		},
	})

	Properties = append(Properties, &PropertySpec{
		ID: "C05", UsesEvalModel: true,
		Harnesses: []HarnessSpec{
			{Name: "C05_lexer", Expect: []string{"end"}, TerminationClaim: true, Witnesses: 8,
				Quick:    grid([]string{"Nb"}, []int{0, 1, 2}),
				Thorough: grid([]string{"Nb"}, []int{0, 1, 2, 3})},
			{Name: "C05_equ3", Expect: []string{"end", "accepted", "rejected"}, TerminationClaim: true, Witnesses: 4},
			{Name: "C05_soup", Expect: []string{"end"}, TerminationClaim: true, Witnesses: 8,
				Quick:    grid([]string{"N", "final"}, []int{1, 2}, []int{0, 1}),
				Thorough: grid([]string{"N", "final"}, []int{1, 2, 3}, []int{0, 1})},
			{Name: "C05_forcount", Expect: []string{"end"}, TerminationClaim: true, Witnesses: 4,
				Quick:    grid([]string{"maxCount"}, []int{4}),
				Thorough: grid([]string{"maxCount"}, []int{8})},
			{Name: "C05_fortail", Expect: []string{"end"}, TerminationClaim: true, Witnesses: 4,
				Quick:    grid([]string{"tail"}, []int{0, 1, 2, 3}),
				Thorough: grid([]string{"tail"}, []int{0, 1, 2, 3, 4})},
			{Name: "C05_equ", Expect: []string{"end", "accepted", "rejected"}, TerminationClaim: true, Witnesses: 4,
				Quick:    grid([]string{"deflen"}, []int{2}),
				Thorough: grid([]string{"deflen"}, []int{3})},
		},
	})

	Properties = append(Properties, &PropertySpec{
		ID: "C08", UsesEvalModel: true,
		Harnesses: []HarnessSpec{
			{Name: "C08_family", Expect: []string{"end", "for-equals-unrolled"}, Witnesses: 8,
				Quick:    append(grid([]string{"maxCount", "nested", "second"}, []int{2}, []int{0, 1}, []int{0, 1}), Params{"maxCount": 2, "nested": 2, "second": 0}),
				Thorough: append(grid([]string{"maxCount", "nested", "second"}, []int{3}, []int{0, 1}, []int{0}), Params{"maxCount": 3, "nested": 0, "second": 1}, Params{"maxCount": 2, "nested": 1, "second": 1},
					Params{"maxCount": 2, "nested": 2, "second": 0}, Params{"maxCount": 2, "nested": 2, "second": 1})},
			{Name: "C08_sequence", Expect: []string{"end"}, Witnesses: 1,
				Quick:    grid([]string{"blocks"}, []int{1, 3, 12}),
				Thorough: grid([]string{"blocks"}, []int{1, 3, 7, 12})},
			{Name: "C08_sequence", Witnesses: 1,
				Quick:    grid([]string{"blocks"}, []int{13}),
				Thorough: grid([]string{"blocks"}, []int{13, 16, 40})},
			{Name: "C08_label_probe", Role: "known:for-label-before-counterless-inner-for", Witnesses: 1},
			{Name: "C08_sequence_probe", Role: "known:for-pass-limit-12", Witnesses: 1,
				Quick:    []Params{{"blocks": 13, "probe": 1}},
				Thorough: []Params{{"blocks": 13, "probe": 1}}},
		},
	})

	Properties = append(Properties, &PropertySpec{
		ID: "C14", UsesEvalModel: true,
		Harnesses: []HarnessSpec{
			{Name: "C14_copy", Expect: []string{"end", "simulator-keeps-its-own-copy"}, Witnesses: 4,
				Quick:    grid([]string{"M", "len", "capfactor"}, []int{5, 8}, []int{1, 3}, []int{1, 2, 4}),
				Thorough: grid([]string{"M", "len", "capfactor"}, []int{3, 5, 8, 13}, []int{1, 2, 3}, []int{1, 2, 3, 4, 8})},
			{Name: "C14_copy", Expect: []string{"end", "adding-does-not-touch-callers-data"}, Witnesses: 4,
				Quick:    grid([]string{"M", "len", "capfactor", "wide"}, []int{5, 8}, []int{1, 3}, []int{1}, []int{1}),
				Thorough: grid([]string{"M", "len", "capfactor", "wide"}, []int{3, 5, 8, 13}, []int{1, 2, 3}, []int{1, 2}, []int{1})},
			{Name: "C14_history", Expect: []string{"end", "result-independent-of-earlier-assemblies"}, Witnesses: 4,
				Quick:    grid([]string{"M"}, []int{8, 8000}),
				Thorough: grid([]string{"M"}, []int{4, 8, 8000, 8192, 55440})},
			{Name: "C14_maporder", Expect: []string{"end", "result-independent-of-map-order"}, Witnesses: 2,
				Quick:    grid([]string{"maporder", "entry"}, seq(0, 11), []int{1, 2}),
				Thorough: grid([]string{"maporder", "entry"}, seq(0, 47), []int{0, 1, 2, 3})},
			{Name: "C14_footprint", Expect: []string{"end"}, Witnesses: 2,
				Quick:    grid([]string{"M"}, []int{8}),
				Thorough: grid([]string{"M"}, []int{8, 13})},
		},
	})

	Properties = append(Properties, &PropertySpec{
		ID: "C16",
		Harnesses: []HarnessSpec{
			{Name: "C16_names", Expect: []string{"end"}},
			{Name: "C16_listing", Expect: []string{"end", "listing-denotes-instruction"}, Witnesses: 4,
				Quick:    grid([]string{"M", "legacy", "len", "op", "sym"}, []int{8, 8000}, []int{0}, []int{1}, seq(0, 16), []int{0}),
				Thorough: grid([]string{"M", "legacy", "len", "op", "sym"}, []int{3, 8, 8000, 8001, 8192, 55440}, []int{0}, []int{1}, seq(0, 16), []int{0})},
			{Name: "C16_listing", Expect: []string{"end", "listing-denotes-instruction"}, Witnesses: 4,
				Quick:    grid([]string{"M", "legacy", "len", "op", "sym"}, []int{8, 8000}, []int{1}, []int{1}, []int{0, 1, 2, 3, 7, 10, 11, 12, 13, 14, 15}, []int{0}),
				Thorough: grid([]string{"M", "legacy", "len", "op", "sym"}, []int{3, 8, 8000, 8001, 8192, 55440}, []int{1}, []int{1}, []int{0, 1, 2, 3, 7, 10, 11, 12, 13, 14, 15}, []int{0})},
			{Name: "C16_listing", Expect: []string{"end", "listing-denotes-instruction"}, Witnesses: 4,
				Quick:    grid([]string{"M", "legacy", "len", "op", "sym"}, []int{3, 8, 8000, 8001, 55440}, []int{0, 1}, []int{1, 2}, []int{1}, []int{1}),
				Thorough: grid([]string{"M", "legacy", "len", "op", "sym"}, []int{3, 8, 8000, 8001, 8192, 55440}, []int{0, 1}, []int{1, 2}, []int{1, 2}, []int{1})},
			{Name: "C16_listing", Expect: []string{"end", "listing-denotes-instruction"}, Witnesses: 4,
				Quick:    grid([]string{"M", "legacy", "len", "op", "sym"}, []int{8, 80}, []int{2}, []int{1}, []int{1, 0, 4, 10}, []int{0}),
				Thorough: grid([]string{"M", "legacy", "len", "op", "sym"}, []int{3, 8, 80, 800}, []int{2}, []int{1}, seq(0, 16), []int{0})},
			{Name: "C16_listing", Expect: []string{"end", "listing-denotes-instruction"}, Witnesses: 4,
				Quick:    grid([]string{"M", "legacy", "len", "op", "sym", "api"}, []int{8, 8000}, []int{0, 1}, []int{2}, []int{1}, []int{1}, []int{1}),
				Thorough: grid([]string{"M", "legacy", "len", "op", "sym", "api"}, []int{3, 8, 8000, 8001, 55440}, []int{0, 1}, []int{1, 2}, []int{1}, []int{1}, []int{1})},
		},
	})

	Properties = append(Properties, &PropertySpec{
		ID: "C10",
		Harnesses: []HarnessSpec{
			{Name: "C10_reader", Expect: []string{"done", "accepted", "rejected"}, Witnesses: 8,
				Quick:    append(grid([]string{"M", "legacy", "lines", "finalNL", "kset"}, []int{8000}, []int{0, 1}, []int{1}, []int{0, 1}, []int{0}), grid([]string{"M", "legacy", "lines", "finalNL", "kset"}, []int{8000}, []int{0, 1}, []int{2}, []int{0, 1}, []int{1})...),
				Thorough: append(grid([]string{"M", "legacy", "lines", "finalNL", "kset"}, []int{8, 8000}, []int{0, 1}, []int{1}, []int{0, 1}, []int{0}), grid([]string{"M", "legacy", "lines", "finalNL", "kset"}, []int{8, 8000}, []int{0, 1}, []int{2}, []int{0, 1}, []int{1})...)},
		},
	})
	Properties = append(Properties, &PropertySpec{
		ID: "C09", UsesEvalModel: true,
		Harnesses: []HarnessSpec{
			{Name: "C09_history", Expect: []string{"end"}, Witnesses: 4,
				Quick:    grid([]string{"legacy"}, []int{0, 1}),
				Thorough: grid([]string{"legacy"}, []int{0, 1})},
			{Name: "C09_names", Expect: []string{"end", "loader-name-roundtrip", "assembler-name-roundtrip"}, Witnesses: 4,
				Quick:    grid([]string{"legacy"}, []int{0, 1}),
				Thorough: grid([]string{"legacy"}, []int{0, 1})},
			{Name: "C09_loader", Expect: []string{"end", "roundtrip-instruction"}, Witnesses: 4,
				Quick:    append(grid([]string{"M", "legacy", "len", "op", "finalNL", "vary"}, []int{8000}, []int{0, 1}, []int{1}, []int{1, 0, 14}, []int{1}, []int{0}), grid([]string{"M", "legacy", "len", "op", "finalNL", "vary"}, []int{8000}, []int{0, 1}, []int{1, 2}, []int{1}, []int{0, 1}, []int{1})...),
				Thorough: append(grid([]string{"M", "legacy", "len", "op", "finalNL", "vary"}, []int{8, 8000, 8192}, []int{0, 1}, []int{1}, []int{0, 1, 2, 3, 7, 10, 11, 12, 13, 14, 15}, []int{1}, []int{0}), grid([]string{"M", "legacy", "len", "op", "finalNL", "vary"}, []int{8, 8000, 8192}, []int{0, 1}, []int{1, 2, 3}, []int{1, 14}, []int{0, 1}, []int{1})...)},
			{Name: "C09_assembler", Expect: []string{"end", "roundtrip-instruction"}, Witnesses: 4,
				Quick:    append(grid([]string{"M", "legacy", "len", "op", "vary"}, []int{8000}, []int{0, 1}, []int{1}, []int{1, 0, 14}, []int{0}), grid([]string{"M", "legacy", "len", "op", "vary"}, []int{8000}, []int{0, 1}, []int{1, 2}, []int{1}, []int{1})...),
				Thorough: append(grid([]string{"M", "legacy", "len", "op", "vary"}, []int{8, 8000, 8192}, []int{0, 1}, []int{1}, []int{0, 1, 2, 3, 7, 10, 11, 12, 13, 14, 15}, []int{0}), grid([]string{"M", "legacy", "len", "op", "vary"}, []int{8, 8000, 8192}, []int{0, 1}, []int{1, 2, 3}, []int{1, 14}, []int{1})...)},
		},
	})

	Properties = append(Properties, &PropertySpec{
		ID: "C17", UsesEvalModel: true,
		Harnesses: []HarnessSpec{
			{Name: "C17_main", WithCmd: true, Expect: []string{"end", "stdout-equals-tallies"}, Witnesses: 6,
				Quick:    append(grid([]string{"warriors", "use88", "preset", "fixed", "maxRounds"}, []int{1, 2}, []int{0, 1}, []int{0}, []int{0, 9}, []int{2}), append(grid([]string{"warriors", "use88", "preset", "fixed", "maxRounds"}, []int{2}, []int{0, 1}, []int{0}, []int{4, 11}, []int{2}), Params{"warriors": 2, "use88": 0, "preset": 1, "fixed": 30, "maxRounds": 1}, Params{"warriors": 2, "use88": 1, "preset": 1, "fixed": 30, "maxRounds": 1})...),
				Thorough: append(grid([]string{"warriors", "use88", "preset", "fixed", "maxRounds"}, []int{1, 2}, []int{0, 1}, []int{0}, []int{0, 4, 5, 8, 9, 11, 12}, []int{3}), grid([]string{"warriors", "use88", "preset", "fixed", "maxRounds"}, []int{1, 2}, []int{0, 1}, []int{1}, []int{30, 70}, []int{2})...)},
		},
	})
}
