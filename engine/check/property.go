package check

import (
	"encoding/json"
	"fmt"
	"os"
	"path/filepath"
	"sort"
	"strconv"
	"strings"
	"sync"
	"sync/atomic"
	"time"
)

type KnownFinding struct {
	ID       string `json:"id"`
	Property string `json:"property"`
	Status   string `json:"status"` // "known" or "fixed"
	Probe    string `json:"probe,omitempty"`
	Commit   string `json:"commit,omitempty"`
	What     string `json:"what"`
}

type knownFile struct {
	Findings []KnownFinding `json:"findings"`
}

func loadKnown() ([]KnownFinding, error) {
	b, err := os.ReadFile(filepath.Join(VerifDir, "known_findings.json"))
	if err != nil {
		if os.IsNotExist(err) {
			return nil, nil
		}
		return nil, err
	}
	var kf knownFile
	if err := json.Unmarshal(b, &kf); err != nil {
		return nil, err
	}
	return kf.Findings, nil
}

type Options struct {
	Property string
	Tier     string
	Seed     int64
	Workers  int
	Only     string // restrict to one harness
	NoReplay bool
	Verbose  bool
}

var evalCompared int

// CheckProperty runs every harness of a property and returns the exit code.
func CheckProperty(opt Options) int {
	start := time.Now()
	spec := FindProperty(opt.Property)
	if spec == nil {
		fmt.Printf("unknown property %s\n", opt.Property)
		return 2
	}
	known, err := loadKnown()
	if err != nil {
		fmt.Printf("INCONCLUSIVE property=%s cannot read known_findings.json: %v\n", opt.Property, err)
		return 2
	}
	knownMap := map[string]bool{}
	for _, k := range known {
		if k.Property == opt.Property && k.Status == "known" {
			knownMap[k.ID] = true
		}
	}
	withCmd := false
	for _, h := range spec.Harnesses {
		if h.WithCmd {
			withCmd = true
		}
	}
	// the trusted model of go/types.Eval is validated against the real
	// function on every run of a property that relies on it
	if spec.UsesEvalModel {
		nCmp, serr := EvalModelSelfTest(opt.Seed, 600)
		if serr != nil {
			fmt.Printf("INCONCLUSIVE property=%s %v\n", opt.Property, serr)
			writeEvidence(opt, spec, nil, nil, 0, []string{serr.Error()}, time.Since(start).Seconds(), nil)
			return 2
		}
		evalCompared = nCmp
	}
	loadStart := time.Now()
	prog, err := Load(withCmd)
	if err != nil {
		fmt.Printf("INCONCLUSIVE property=%s cannot load /repo: %v\n", opt.Property, err)
		writeEvidence(opt, spec, nil, nil, 0, []string{"cannot load /repo: " + err.Error()}, time.Since(start).Seconds(), nil)
		return 2
	}
	loadSecs := time.Since(loadStart).Seconds()

	var jobs []*Job
	for hi := range spec.Harnesses {
		h := &spec.Harnesses[hi]
		if opt.Only != "" && h.Name != opt.Only {
			continue
		}
		if strings.HasPrefix(h.Role, "known:") {
			id := strings.TrimPrefix(h.Role, "known:")
			if !knownMap[id] {
				continue // probe only runs for listed, unfixed findings
			}
		}
		cases := h.Quick
		if opt.Tier == "thorough" && h.Thorough != nil {
			cases = h.Thorough
		}
		if len(cases) == 0 {
			cases = []Params{{}}
		}
		for _, p := range cases {
			jobs = append(jobs, &Job{Prop: spec.ID, Spec: h, Params: p, Tier: opt.Tier, Seed: opt.Seed, Known: knownMap, JobIdx: len(jobs), Program: prog})
		}
	}
	workers := opt.Workers
	if workers <= 0 {
		workers = 16
	}
	if workers > len(jobs) {
		workers = len(jobs)
	}
	results := make([]*JobResult, len(jobs))
	var failedJobs int32
	var wg sync.WaitGroup
	ch := make(chan int)
	for w := 0; w < workers; w++ {
		wg.Add(1)
		go func() {
			defer wg.Done()
			for i := range ch {
				// fail fast: once counterexamples were found in two ordinary
				// jobs the remaining ones are not started (the run has failed;
				// under a breaking change they are often the slow ones)
				if atomic.LoadInt32(&failedJobs) >= 2 {
					fe := map[string]bool{}
					for _, id := range jobs[i].Spec.Expect {
						fe[id] = true
					}
					results[i] = &JobResult{Job: jobs[i], FeasibleIDs: fe, NotRun: true}
					continue
				}
				results[i] = runJob(jobs[i])
				if jobs[i].Spec.Role == "" && len(results[i].Violations) > 0 {
					atomic.AddInt32(&failedJobs, 1)
				}
				if opt.Verbose {
					r := results[i]
					fmt.Printf("  job %s[%s]: finals=%d oblig=%d/%d viol=%d inconcl=%d queries=%d solver=%.1fs wall=%.1fs\n",
						r.Job.Spec.Name, r.Job.Params, r.Finals, r.Discharged, r.Obligations, len(r.Violations), len(r.Inconclusive), r.Solver.Queries, r.Solver.Seconds, r.Wall)
				}
			}
		}()
	}
	for i := range jobs {
		ch <- i
	}
	close(ch)
	wg.Wait()

	// --- native replay of counterexamples and witnesses ---
	var inconclusive []string
	var recs []*Record
	type recRef struct {
		v   *Violation
		wit *Record
		job *JobResult
	}
	var refs []recRef
	for _, r := range results {
		for _, inc := range r.Inconclusive {
			inconclusive = append(inconclusive, fmt.Sprintf("%s[%s]: %s", r.Job.Spec.Name, r.Job.Params, inc))
		}
		// at most 3 counterexamples per (job, id) are replayed
		cnt := map[string]int{}
		for _, v := range r.Violations {
			cnt[v.ID]++
			if cnt[v.ID] > 3 {
				continue
			}
			recs = append(recs, v.Record)
			refs = append(refs, recRef{v: v, job: r})
		}
		for _, w := range r.Witnesses {
			recs = append(recs, w)
			refs = append(refs, recRef{wit: w, job: r})
		}
	}
	witnessOK := 0
	var natives []*NativeResult
	if !opt.NoReplay && len(recs) > 0 {
		natives, err = replayRecords(recs, 5000)
		if err != nil {
			inconclusive = append(inconclusive, err.Error())
		}
	}
	for i, ref := range refs {
		var nr *NativeResult
		if i < len(natives) {
			nr = natives[i]
		}
		if ref.v != nil {
			if opt.NoReplay {
				ref.v.Verified = true
				ref.v.Confirm = "replay skipped"
				continue
			}
			ok, why := confirms(ref.v, nr)
			ref.v.Verified = ok
			ref.v.Confirm = why
		} else {
			if opt.NoReplay {
				continue
			}
			ok, why := compareWitness(ref.wit, nr)
			if !ok && nr != nil && len(nr.Failed) > 0 && len(ref.job.Violations) > 0 {
				// the witness inputs happen to hit a violation the solver
				// reported for this job as well
				continue
			}
			if ok {
				witnessOK++
			} else {
				b, _ := json.Marshal(ref.wit)
				inconclusive = append(inconclusive, fmt.Sprintf("ENCODING-MISMATCH on witness of %s[%s]: %s; record %s", ref.job.Job.Spec.Name, ref.job.Job.Params, why, string(b)))
			}
		}
	}

	// --- verdicts per role ---
	exit := 0
	var lines []string
	violations := 0
	knownFound := map[string]bool{}
	canaryOK := map[string]bool{}
	canarySeen := map[string]bool{}
	for _, r := range results {
		role := r.Job.Spec.Role
		switch {
		case role == "canary":
			canarySeen[r.Job.Spec.Name] = true
			for _, v := range r.Violations {
				if v.Verified {
					canaryOK[r.Job.Spec.Name] = true
				}
			}
		case strings.HasPrefix(role, "known:"):
			id := strings.TrimPrefix(role, "known:")
			for _, v := range r.Violations {
				if v.Verified {
					knownFound[id] = true
				} else if v.Confirm != "" && !v.Verified {
					inconclusive = append(inconclusive, fmt.Sprintf("ENCODING-MISMATCH: known-finding probe %s[%s] model did not reproduce: %s", r.Job.Spec.Name, r.Job.Params, v.Confirm))
				}
			}
		default:
			seen := map[string]bool{}
			for _, v := range r.Violations {
				if !v.Verified {
					if v.Confirm != "" {
						b, _ := json.Marshal(v.Record)
						inconclusive = append(inconclusive, fmt.Sprintf("ENCODING-MISMATCH: model for %s in %s[%s] did not reproduce natively: %s; record %s", v.ID, v.Harness, v.Params, v.Confirm, string(b)))
					}
					continue
				}
				if seen[v.ID] {
					continue
				}
				seen[v.ID] = true
				path := saveReplay(spec.ID, v)
				v.Replay = path
				violations++
				if violations > 8 {
					continue
				}
				lines = append(lines, fmt.Sprintf("VIOLATION property=%s replay=%s", spec.ID, path))
				lines = append(lines, fmt.Sprintf("  harness=%s case=[%s] assertion=%s kind=%s site=%s native=%s", v.Harness, v.Params, v.ID, v.Kind, v.Site, v.Confirm))
			}
			// vacuity: expected ids reached on a feasible path
			if len(r.Inconclusive) == 0 {
				for _, id := range r.Job.Spec.Expect {
					if !r.FeasibleIDs[id] {
						inconclusive = append(inconclusive, fmt.Sprintf("VACUOUS: %s[%s] never reaches %q on a feasible path", r.Job.Spec.Name, r.Job.Params, id))
					}
				}
			}
		}
	}
	for name := range canarySeen {
		if !canaryOK[name] {
			inconclusive = append(inconclusive, fmt.Sprintf("CANARY-DEAD: deliberately wrong oracle %s was not refuted in any case — the check cannot see violations", name))
		}
	}
	for _, k := range known {
		if k.Property != spec.ID || k.Status != "known" {
			continue
		}
		if knownFound[k.ID] {
			lines = append(lines, fmt.Sprintf("KNOWN-FINDING: property=%s %s", spec.ID, k.What))
		}
	}
	if len(inconclusive) > 0 {
		exit = 2
	}
	if violations > 0 {
		exit = 1
	}
	for _, l := range lines {
		fmt.Println(l)
	}
	for _, inc := range inconclusive {
		fmt.Printf("INCONCLUSIVE property=%s %s\n", spec.ID, inc)
	}
	wall := time.Since(start).Seconds()
	writeEvidence(opt, spec, results, known, witnessOK, inconclusive, wall, map[string]float64{"load_s": loadSecs, "eval_model_cases_compared_with_go_types": float64(evalCompared)})
	totalQ, totalS := 0, 0.0
	notRun := 0
	for _, r := range results {
		totalQ += r.Solver.Queries
		totalS += r.Solver.Seconds
		if r.NotRun {
			notRun++
		}
	}
	if notRun > 0 {
		fmt.Printf("NOTE: %d of %d jobs were not started after counterexamples had been found in two others (fail fast)\n", notRun, len(jobs))
	}
	fmt.Printf("property=%s tier=%s jobs=%d violations=%d inconclusive=%d witnesses_agreed=%d queries=%d solver_s=%.1f wall_s=%.1f exit=%d\n",
		spec.ID, opt.Tier, len(jobs), violations, len(inconclusive), witnessOK, totalQ, totalS, wall, exit)
	return exit
}

func writeEvidence(opt Options, spec *PropertySpec, results []*JobResult, known []KnownFinding, witnessOK int, inconclusive []string, wall float64, extra map[string]float64) {
	states, transitions, obligations, discharged, queries := 0, 0, 0, 0, 0
	sat, unsat, unknown := 0, 0, 0
	solverS, maxQ := 0.0, 0.0
	funcs := map[string]int{}
	var samples []interface{}
	var bounds []string
	violations := 0
	harnesses := map[string]bool{}
	merges, forks, pruned, steps := 0, 0, 0, 0
	asserts, assertsConst := 0, 0
	for _, r := range results {
		if r == nil {
			continue
		}
		states += r.Finals
		transitions += r.Stat.Forks + r.Stat.Splits + r.Stat.Pruned
		merges += r.Stat.Merges
		forks += r.Stat.Forks + r.Stat.Splits
		pruned += r.Stat.Pruned
		steps += r.Stat.Steps
		asserts += r.Stat.Asserts
		assertsConst += r.Stat.AssertsConst
		obligations += r.Obligations
		discharged += r.Discharged
		queries += r.Solver.Queries
		sat += r.Solver.Sat
		unsat += r.Solver.Unsat
		unknown += r.Solver.Unknown
		solverS += r.Solver.Seconds
		if r.Solver.MaxQuery > maxQ {
			maxQ = r.Solver.MaxQuery
		}
		for k, v := range r.Funcs {
			funcs[k] = v
		}
		bounds = append(bounds, fmt.Sprintf("%s[%s]", r.Job.Spec.Name, r.Job.Params))
		harnesses[r.Job.Spec.Name] = true
		for _, v := range r.Violations {
			if v.Verified && r.Job.Spec.Role == "" {
				violations++
			}
		}
		if len(samples) < 6 && len(r.Witnesses) > 0 {
			w := r.Witnesses[0]
			samples = append(samples, map[string]interface{}{"harness": w.Harness, "case": r.Job.Params.String(), "inputs": compactValues(w.Values), "predicted_observations": len(w.Expect), "kind": "witness path replayed against the native build"})
		}
		for _, v := range r.Violations {
			if len(samples) < 10 {
				samples = append(samples, map[string]interface{}{"harness": v.Harness, "case": v.Params, "assertion": v.ID, "kind": "counterexample (" + r.Job.Spec.Role + ")", "native": v.Confirm, "inputs": compactValues(v.Record.Values)})
			}
		}
	}
	if len(samples) == 0 {
		samples = append(samples, map[string]interface{}{"note": "no job completed"})
	}
	var fnames []string
	for k := range funcs {
		if !strings.Contains(k, "VerifHarness") {
			fnames = append(fnames, fmt.Sprintf("%s (%d instrs)", k, funcs[k]))
		}
	}
	sort.Strings(fnames)
	sort.Strings(bounds)
	if states == 0 {
		states = 1
	}
	if transitions == 0 {
		transitions = 1
	}
	tier := opt.Tier
	if tier != "thorough" {
		tier = "quick"
	}
	var kf []string
	for _, k := range known {
		if k.Property == spec.ID {
			kf = append(kf, k.Status+": "+k.What)
		}
	}
	ev := map[string]interface{}{
		"property_id": spec.ID,
		"tier":        tier,
		"seed":        opt.Seed,
		"level":       "model_checking",
		"coverage": map[string]interface{}{
			"states":                               states,
			"transitions":                          transitions,
			"traces_validated_against_impl":        witnessOK,
			"samples":                              samples,
			"explanation":                          "bounded symbolic execution of the real functions (go/ssa -> SMT-LIB2 bit-vectors, z3); states = final symbolic states (merged paths), transitions = branch decisions (forks, splits, solver-pruned sides); every obligation is one solver query over all inputs within the case's bounds",
			"functions_encoded":                    fnames,
			"cases":                                bounds,
			"obligations":                          obligations,
			"discharged":                           discharged,
			"solver_queries":                       queries,
			"solver_sat":                           sat,
			"solver_unsat":                         unsat,
			"solver_unknown":                       unknown,
			"solver_seconds":                       round2(solverS),
			"slowest_query_seconds":                round2(maxQ),
			"state_merges":                         merges,
			"forks":                                forks,
			"pruned_branches":                      pruned,
			"ssa_instructions_executed":            steps,
			"assertions_evaluated":                 asserts,
			"assertions_decided_by_simplification": assertsConst,
			"inconclusive":                         inconclusive,
			"outside_the_claim":                    spec.Outside,
			"known_findings":                       kf,
			"solver":                               solverBin,
			"timing":                               extra,
		},
		"assumptions": append([]string{
			"soundness of the SSA->SMT translation (validated on every run by replaying witness paths natively and comparing observables)",
			"z3 answers unsat correctly (canary twins with a deliberately wrong oracle must be refuted)",
			"go/ssa faithfully represents the source",
		}, spec.Stubs...),
		"wall_s":     round2(wall),
		"violations": violations,
	}
	os.MkdirAll(filepath.Join(VerifDir, "evidence"), 0o755)
	b, _ := json.MarshalIndent(ev, "", " ")
	os.WriteFile(filepath.Join(VerifDir, "evidence", spec.ID+".json"), b, 0o644)
}

func round2(f float64) float64 {
	v, _ := strconv.ParseFloat(fmt.Sprintf("%.2f", f), 64)
	return v
}

func compactValues(m map[string][]uint64) map[string]interface{} {
	out := map[string]interface{}{}
	for k, v := range m {
		if len(v) > 12 {
			out[k] = append(append([]uint64(nil), v[:12]...), 0xffffffff)
		} else {
			out[k] = v
		}
	}
	return out
}

// Replay runs one saved counterexample natively and reports the outcome.
func Replay(path string) int {
	b, err := os.ReadFile(path)
	if err != nil {
		fmt.Println(err)
		return 2
	}
	rec := &Record{}
	if err := json.Unmarshal(b, rec); err != nil {
		fmt.Println(err)
		return 2
	}
	nrs, err := replayRecords([]*Record{rec}, 5000)
	if err != nil {
		fmt.Println(err)
		return 2
	}
	nr := nrs[0]
	out, _ := json.MarshalIndent(nr, "", " ")
	fmt.Println(string(out))
	if len(nr.Failed) > 0 || nr.Panic != "" || nr.Timeout || nr.Leaked > 0 {
		fmt.Println("REPRODUCED: " + rec.Note)
		return 1
	}
	fmt.Println("not reproduced")
	return 0
}
