package check

import (
	"crypto/sha1"
	"encoding/json"
	"fmt"
	"math/rand"
	"os"
	"os/exec"
	"path/filepath"
	"runtime/debug"
	"sort"
	"strings"
	"sync"
	"time"

	"verif/engine/smt"
	"verif/engine/sym"
)

type Params map[string]int

func (p Params) String() string {
	var ks []string
	for k := range p {
		ks = append(ks, k)
	}
	sort.Strings(ks)
	var parts []string
	for _, k := range ks {
		parts = append(parts, fmt.Sprintf("%s=%d", k, p[k]))
	}
	return strings.Join(parts, ",")
}

// HarnessSpec describes one harness entry and the cases it is run on.
type HarnessSpec struct {
	Name     string
	Quick    []Params
	Thorough []Params
	// Expect: assertion/reach ids that must be reached on a feasible path
	Expect []string
	// Role: "" (obligations must hold), "canary" (a violation must be found
	// and replayed), "known:<finding id>" (probe for a listed finding)
	Role string
	// TerminationClaim: unwinding failures are violations (hangs), not
	// inconclusive results
	TerminationClaim bool
	Witnesses        int // per job (quick); thorough uses 4x
	WithCmd          bool
	SolverTimeoutMs  int
}

type PropertySpec struct {
	ID            string
	Harnesses     []HarnessSpec
	Outside       []string // what lies outside the claim
	UsesEvalModel bool
	Stubs         []string
}

type Job struct {
	Prop    string
	Spec    *HarnessSpec
	Params  Params
	Tier    string
	Seed    int64
	Known   map[string]bool
	JobIdx  int
	Program *Program
}

type Violation struct {
	ID       string `json:"id"`
	Kind     string `json:"kind"`
	Site     string `json:"site"`
	Harness  string `json:"harness"`
	Params   string `json:"params"`
	Record   *Record
	Replay   string `json:"replay"`
	Confirm  string `json:"confirm"`
	Verified bool
}

type Record struct {
	Harness string              `json:"harness"`
	Params  map[string]int      `json:"params"`
	Values  map[string][]uint64 `json:"values"`
	Known   map[string]bool     `json:"known"`
	Expect  []ObsVal            `json:"expect_obs,omitempty"`
	Note    string              `json:"note,omitempty"`
	Strs    map[string][]string `json:"vocab,omitempty"`
	Pkg     string              `json:"pkg,omitempty"` // package the harness lives in ("" = the gmars package)
}

type ObsVal struct {
	Name string `json:"name"`
	Val  string `json:"val"`
}

type JobResult struct {
	Job          *Job
	Finals       int
	DonePaths    int
	DeadPaths    int
	Obligations  int
	Discharged   int
	Violations   []*Violation
	Inconclusive []string
	Witnesses    []*Record
	FeasibleIDs  map[string]bool
	Stat         sym.Stat
	Solver       smt.Stats
	Funcs        map[string]int
	Terms        int
	Wall         float64
	Samples      []map[string]interface{}
	Skipped      int // obligations not searched after three counterexamples for the same assertion
	NotRun       bool // not started: the run had already failed (fail fast)
}

var solverBin = envOr("VERIF_SOLVER", "z3-new")

func runJob(job *Job) (res *JobResult) {
	start := time.Now()
	res = &JobResult{Job: job, FeasibleIDs: map[string]bool{}}
	st := smt.NewStore()
	st.RemSplit = true
	st.Narrow = os.Getenv("VERIF_NONARROW") == ""
	tmo := job.Spec.SolverTimeoutMs
	if tmo == 0 {
		tmo = 120_000
		if v := os.Getenv("VERIF_TMO"); v != "" {
			fmt.Sscanf(v, "%d", &tmo)
		}
		if job.Tier == "thorough" {
			tmo = 600_000
		}
	}
	solver, err := smt.NewSolver(st, solverBin, tmo)
	if err != nil {
		res.Inconclusive = append(res.Inconclusive, "cannot start solver: "+err.Error())
		return res
	}
	defer solver.Close()
	if os.Getenv("VERIF_SMTLOG") != "" {
		f, _ := os.Create(fmt.Sprintf("%s.%s.%d.smt2", os.Getenv("VERIF_SMTLOG"), job.Spec.Name, job.JobIdx))
		defer f.Close()
		solver.Log = f
	}
	if os.Getenv("VERIF_TRACE") != "" {
		solver.Trace = os.Stderr
	}
	pkg := job.Program.Pkg
	ex := sym.NewExec(st, solver, job.Program.Prog, pkg)
	ex.CmdPkg = job.Program.Cmd
	ex.Debug = os.Getenv("VERIF_DEBUG") == "1"
	for k, v := range job.Params {
		ex.Params[k] = v
	}
	for k, v := range job.Known {
		ex.Known[k] = v
	}
	fn := pkg.Func("VerifHarness_" + job.Spec.Name)
	if job.Spec.WithCmd && job.Program.Cmd != nil {
		fn = job.Program.Cmd.Func("VerifHarness_" + job.Spec.Name)
	}
	if fn == nil {
		res.Inconclusive = append(res.Inconclusive, "harness function not found: "+job.Spec.Name)
		return res
	}
	var finals []*sym.State
	func() {
		defer func() {
			if r := recover(); r != nil {
				if u, ok := r.(*sym.Unsupported); ok {
					res.Inconclusive = append(res.Inconclusive, u.Error())
				} else {
					res.Inconclusive = append(res.Inconclusive, fmt.Sprintf("engine panic: %v\n%s", r, debug.Stack()))
				}
			}
		}()
		finals = ex.Run(fn)
		finals = append(finals, ex.Orphans()...)
	}()
	aborted := len(res.Inconclusive) > 0
	seenUns := map[string]bool{}
	for _, u := range ex.UnsupportedPaths {
		if !seenUns[u] {
			seenUns[u] = true
			res.Inconclusive = append(res.Inconclusive, "on one path: "+u)
		}
	}
	res.Finals = len(finals)
	rng := rand.New(rand.NewSource(job.Seed + int64(job.JobIdx)*7919))
	nWit := job.Spec.Witnesses
	if nWit == 0 {
		nWit = 2
	}
	if job.Tier == "thorough" {
		nWit *= 4
	}
	// order of witness sampling over done states
	var doneStates []*sym.State
	for _, f := range finals {
		if f.Done {
			res.DonePaths++
			doneStates = append(doneStates, f)
		} else {
			res.DeadPaths++
		}
	}
	if !aborted {
		for _, f := range finals {
			dischargeState(ex, solver, f, job, res)
		}
		// feasibility / vacuity and witnesses
		perm := rng.Perm(len(doneStates))
		witLeft := nWit
		for _, i := range perm {
			f := doneStates[i]
			needFeas := false
			for id := range f.Reached {
				if !res.FeasibleIDs[id] {
					needFeas = true
				}
			}
			if !needFeas && witLeft <= 0 {
				continue
			}
			rec := witnessFor(ex, solver, f, job, rng, witLeft > 0)
			if rec == nil {
				continue
			}
			for id := range f.Reached {
				res.FeasibleIDs[id] = true
			}
			if witLeft > 0 {
				res.Witnesses = append(res.Witnesses, rec)
				witLeft--
				// extra witnesses from the same (merged) state with diversity constraints
				for k := 0; k < 3 && witLeft > 0 && len(doneStates) < nWit; k++ {
					if r2 := witnessFor(ex, solver, f, job, rng, true); r2 != nil {
						res.Witnesses = append(res.Witnesses, r2)
						witLeft--
					}
				}
			}
		}
		if len(solver.LastErr) > 0 {
			res.Inconclusive = append(res.Inconclusive, "solver error: "+solver.LastErr)
		}
	}
	res.Stat = ex.Stat
	res.Solver = solver.Stats
	res.Funcs = ex.FuncsVisited
	res.Terms = st.NumTerms()
	res.Wall = time.Since(start).Seconds()
	return res
}

func inputTerms(f *sym.State) []*smt.Term {
	var ts []*smt.Term
	for _, in := range f.Inputs {
		if in.Term != nil && !in.Term.IsConst() {
			ts = append(ts, in.Term)
		}
	}
	return ts
}

func recordFromModel(job *Job, f *sym.State, model map[int]uint64) *Record {
	rec := &Record{Harness: job.Spec.Name, Params: job.Params, Values: map[string][]uint64{}, Known: job.Known}
	if job.Spec.WithCmd {
		rec.Pkg = "./cmd/gmars"
	}
	for _, in := range f.Inputs {
		if in.Term == nil {
			continue
		}
		v := model[in.Term.ID]
		if in.Term.IsConst() {
			v = in.Term.Val
		}
		vals := rec.Values[in.Name]
		for len(vals) <= in.Idx {
			vals = append(vals, 0)
		}
		vals[in.Idx] = v
		rec.Values[in.Name] = vals
		if in.Str != nil {
			if rec.Strs == nil {
				rec.Strs = map[string][]string{}
			}
			w := "?"
			if int(v) < len(in.Str) {
				w = in.Str[v]
			}
			rec.Strs[in.Name] = append(rec.Strs[in.Name], w)
		}
	}
	return rec
}

func dischargeState(ex *sym.Exec, solver *smt.Solver, f *sym.State, job *Job, res *JobResult) {
	st := ex.Store()
	groups := map[string][]sym.Obligation{}
	var order []string
	for _, o := range f.Oblig {
		if _, ok := groups[o.ID]; !ok {
			order = append(order, o.ID)
		}
		groups[o.ID] = append(groups[o.ID], o)
	}
	sort.Strings(order)
	for _, id := range order {
		// once a job has three counterexamples for an assertion the
		// remaining paths are not searched for more of the same
		nv := 0
		for _, v := range res.Violations {
			if v.ID == id {
				nv++
			}
		}
		if nv >= 3 {
			res.Skipped++
			continue
		}
		obs := groups[id]
		var conds []*smt.Term
		for _, o := range obs {
			conds = append(conds, o.Cond)
		}
		res.Obligations++
		cond := st.Or(conds...)
		if d := os.Getenv("VERIF_DUMP"); d != "" {
			os.WriteFile(filepath.Join(d, fmt.Sprintf("%s-%d-%s.smt2", job.Spec.Name, job.JobIdx, strings.ReplaceAll(strings.ReplaceAll(id, "/", "_"), ":", "_"))), []byte(smt.DumpQuery(st, []*smt.Term{cond})), 0o644)
		}
		r, model := solver.Check([]*smt.Term{cond}, inputTerms(f))
		if r == smt.Sat {
			// the obligation may only be violable through an abstract
			// arithmetic function: decide again with the functions pinned to
			// the operations they stand for
			if ref := st.RefineUF(cond); len(ref) > 0 {
				model0 := model
				save := solver.TimeoutMs
				if save > 30000 {
					solver.SetTimeout(30000)
				}
				r, model = solver.Check(append([]*smt.Term{cond}, ref...), inputTerms(f))
				solver.SetTimeout(save)
				if r == smt.Unknown {
					// exact arithmetic does not finish: let the native replay
					// decide whether the abstract model's inputs are a real
					// counterexample (a model that does not reproduce makes the
					// run inconclusive, never a pass)
					r, model = smt.Sat, model0
				}
			}
		}
		switch r {
		case smt.Unsat:
			res.Discharged++
		case smt.Unknown:
			res.Inconclusive = append(res.Inconclusive, fmt.Sprintf("solver unknown/timeout on obligation %s [%s] (%s)", id, job.Params, solver.LastErr))
		case smt.Sat:
			// which obligation of the group fails under the model? (for the site)
			kind, sitestr := obs[0].Kind, obs[0].Site
			if len(obs) > 1 {
				env := map[string]uint64{}
				for _, in := range f.Inputs {
					if in.Term != nil {
						env[in.Term.Name] = model[in.Term.ID]
					}
				}
				memo := map[int]uint64{}
				for _, o := range obs {
					if !hasUF(o.Cond) && st.Eval(o.Cond, env, memo) == 1 {
						kind, sitestr = o.Kind, o.Site
						break
					}
				}
			}
			if kind == "unwind" && !job.Spec.TerminationClaim {
				res.Inconclusive = append(res.Inconclusive, fmt.Sprintf("unwinding bound exceeded at %s [%s]", sitestr, job.Params))
				continue
			}
			rec := recordFromModel(job, f, model)
			rec.Note = fmt.Sprintf("counterexample for %s (%s) at %s", id, kind, sitestr)
			res.Violations = append(res.Violations, &Violation{ID: id, Kind: kind, Site: sitestr, Harness: job.Spec.Name, Params: job.Params.String(), Record: rec})
		}
	}
}

func hasUF(t *smt.Term) bool {
	seen := map[int]bool{}
	var walk func(t *smt.Term) bool
	walk = func(t *smt.Term) bool {
		if seen[t.ID] {
			return false
		}
		seen[t.ID] = true
		if t.Op == smt.OpUF {
			return true
		}
		for _, a := range t.Args {
			if walk(a) {
				return true
			}
		}
		return false
	}
	return walk(t)
}

// witnessFor asks for a model of the path condition of a finished state and
// turns it into a replay record carrying the predicted observations.
func witnessFor(ex *sym.Exec, solver *smt.Solver, f *sym.State, job *Job, rng *rand.Rand, diversify bool) *Record {
	st := ex.Store()
	ins := inputTerms(f)
	want := ins
	pc := append([]*smt.Term(nil), f.PC...)
	tries := [][]*smt.Term{}
	if diversify && len(ins) > 0 {
		// constrain the low bits of a few random inputs
		var extra []*smt.Term
		for k := 0; k < 3; k++ {
			t := ins[rng.Intn(len(ins))]
			if t.W == 0 {
				extra = append(extra, st.Eq(t, st.Bool(rng.Intn(2) == 0)))
				continue
			}
			bits := 2
			if t.W < bits {
				bits = t.W
			}
			extra = append(extra, st.Eq(st.Extract(t, 0, bits), st.BV(uint64(rng.Intn(1<<uint(bits))), bits)))
		}
		tries = append(tries, extra, extra[:1])
	}
	tries = append(tries, nil)
	for _, extra := range tries {
		r, model := solver.Check(append(append([]*smt.Term(nil), pc...), extra...), want)
		if r != smt.Sat {
			continue
		}
		rec := recordFromModel(job, f, model)
		// predicted observations: the engine's terms evaluated on the inputs
		// (abstraction functions interpreted as the operations they stand for)
		env := map[string]uint64{}
		for _, in := range f.Inputs {
			if in.Term != nil {
				env[in.Term.Name] = model[in.Term.ID]
			}
		}
		memo := map[int]uint64{}
		okPC := true
		for _, c := range pc {
			if st.Eval(c, env, memo) != 1 {
				okPC = false
				break
			}
		}
		if !okPC {
			continue // the model relied on an abstract function value; try another
		}
		for _, o := range f.Obs {
			rec.Expect = append(rec.Expect, ObsVal{o.Name, sym.Concretize(st, o.Val, env, memo)})
		}
		return rec
	}
	return nil
}

// ---------------------------------------------------------------------
// native replay

type NativeResult struct {
	Harness      string   `json:"harness"`
	Obs          []ObsVal `json:"obs"`
	Failed       []string `json:"failed"`
	Reached      []string `json:"reached"`
	AssumeFailed bool     `json:"assume_failed"`
	Panic        string   `json:"panic"`
	PanicStack   string   `json:"panic_stack"`
	Timeout      bool     `json:"timeout"`
	Leaked       int      `json:"leaked"`
	LeakStacks   string   `json:"leak_stacks"`
	Exited       bool     `json:"exited"` // the test process ended while this record ran
}

var replayMu sync.Mutex

// replayRecords runs the records natively (one go test invocation, repeated
// for the remainder when a record hangs) and returns the results in order.
func replayRecords(recs []*Record, budgetMs int) ([]*NativeResult, error) {
	replayMu.Lock()
	defer replayMu.Unlock()
	if len(recs) == 0 {
		return nil, nil
	}
	dir, err := os.MkdirTemp("", "gosmt-replay-")
	if err != nil {
		return nil, err
	}
	defer os.RemoveAll(dir)
	contents, err := overlayContents(true)
	if err != nil {
		return nil, err
	}
	om := map[string]string{}
	k := 0
	for virt, b := range contents {
		real := filepath.Join(dir, fmt.Sprintf("ov%03d_%s", k, filepath.Base(virt)))
		k++
		if err := os.WriteFile(real, b, 0o644); err != nil {
			return nil, err
		}
		om[virt] = real
	}
	ov, _ := json.Marshal(map[string]interface{}{"Replace": om})
	ovPath := filepath.Join(dir, "overlay.json")
	os.WriteFile(ovPath, ov, 0o644)
	recDir := filepath.Join(dir, "recs")
	os.Mkdir(recDir, 0o755)
	results := make([]*NativeResult, len(recs))
	pending := map[int]bool{}
	for i := range recs {
		pending[i] = true
	}
	for round := 0; round < len(recs)+1 && len(pending) > 0; round++ {
		// write pending records
		os.RemoveAll(recDir)
		os.Mkdir(recDir, 0o755)
		var idxs []int
		for i := range pending {
			idxs = append(idxs, i)
		}
		sort.Ints(idxs)
		for _, i := range idxs {
			b, _ := json.Marshal(recs[i])
			os.WriteFile(filepath.Join(recDir, fmt.Sprintf("%06d.json", i)), b, 0o644)
		}
		pkgArg := "."
		if len(recs) > 0 && recs[0].Pkg != "" {
			pkgArg = recs[0].Pkg
		}
		cmd := exec.Command("go", "test", "-vet=off", "-count=1", "-overlay", ovPath, "-run", "^TestVerifReplay$", "-timeout", "20m", pkgArg)
		cmd.Dir = RepoDir
		cmd.Env = append(goEnv(), "VERIF_REPLAY_DIR="+recDir, fmt.Sprintf("VERIF_REPLAY_BUDGET_MS=%d", budgetMs))
		out, err := cmd.CombinedOutput()
		progressed := false
		for _, i := range idxs {
			b, rerr := os.ReadFile(filepath.Join(recDir, fmt.Sprintf("%06d.json.out", i)))
			if rerr != nil {
				continue
			}
			nr := &NativeResult{}
			if json.Unmarshal(b, nr) != nil {
				continue
			}
			results[i] = nr
			delete(pending, i)
			progressed = true
		}
		if !progressed {
			return results, fmt.Errorf("native replay failed: %v\n%s", err, string(out))
		}
	}
	return results, nil
}

func saveReplay(prop string, v *Violation) string {
	dir := filepath.Join(VerifDir, "replays", prop)
	os.MkdirAll(dir, 0o755)
	b, _ := json.MarshalIndent(v.Record, "", " ")
	h := sha1.Sum(b)
	path := filepath.Join(dir, fmt.Sprintf("%s-%x.json", v.Harness, h[:5]))
	os.WriteFile(path, b, 0o644)
	return path
}

// confirms reports whether the native result shows the predicted violation.
func confirms(v *Violation, nr *NativeResult) (bool, string) {
	if nr == nil {
		return false, "no native result"
	}
	if nr.Exited {
		if v.ID == "tool-exits-with-error-status" {
			return true, "the native process exited while main ran"
		}
		return false, "the native process ended during the run"
	}
	if nr.AssumeFailed {
		return false, "native run rejected the inputs (assumption failed)"
	}
	switch v.Kind {
	case "assert":
		for _, f := range nr.Failed {
			if f == v.ID {
				return true, "assertion " + v.ID + " failed natively"
			}
		}
		if nr.Panic != "" {
			return false, "native run panicked instead: " + nr.Panic
		}
		return false, "assertion did not fail natively"
	case "panic":
		if nr.Panic != "" {
			return true, "native panic: " + nr.Panic
		}
		return false, "no native panic"
	case "unwind", "hang":
		if nr.Timeout {
			return true, "native run exceeded its time budget"
		}
		if nr.Leaked > 0 {
			return true, fmt.Sprintf("%d goroutine(s) still running or parked after the native run returned", nr.Leaked)
		}
		return false, "native run terminated"
	case "leak":
		if nr.Leaked > 0 {
			return true, fmt.Sprintf("%d goroutine(s) left behind natively", nr.Leaked)
		}
		return false, "no goroutine left behind natively"
	}
	return false, "unknown kind"
}

func compareWitness(rec *Record, nr *NativeResult) (bool, string) {
	if nr == nil {
		return false, "no native result"
	}
	if nr.AssumeFailed {
		return false, "native run rejected the witness inputs"
	}
	if nr.Panic != "" {
		return false, "native panic on witness: " + nr.Panic
	}
	if nr.Timeout {
		return false, "native timeout on witness"
	}
	if len(nr.Failed) > 0 {
		return false, "native assertion failures on witness: " + strings.Join(nr.Failed, ",")
	}
	if len(nr.Obs) != len(rec.Expect) {
		return false, fmt.Sprintf("observation count differs: native %d, predicted %d", len(nr.Obs), len(rec.Expect))
	}
	for i := range nr.Obs {
		if nr.Obs[i].Name != rec.Expect[i].Name || nr.Obs[i].Val != rec.Expect[i].Val {
			return false, fmt.Sprintf("observation %d (%s): native %s, predicted %s=%s", i, nr.Obs[i].Name, nr.Obs[i].Val, rec.Expect[i].Name, rec.Expect[i].Val)
		}
	}
	return true, ""
}
