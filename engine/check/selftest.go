package check

import (
	"fmt"
	gtoken "go/token"
	"go/types"
	"math/rand"
	"strings"

	"verif/engine/smt"
	"verif/engine/sym"
)

// EvalModelSelfTest compares the trusted model of go/types.Eval with the
// real function on generated expression strings (well-formed expressions
// with sign runs, spaces and parentheses, and random token soup). A
// disagreement makes every check that relies on the model inconclusive.
func EvalModelSelfTest(seed int64, n int) (compared int, err error) {
	st := smt.NewStore()
	ex := sym.NewExec(st, nil, nil, nil)
	rng := rand.New(rand.NewSource(seed))
	var gen func(d int) string
	signs := []string{"", "", "-", "+", "- ", "--", "-+", "+-", "- -", "-+-"}
	ops := []string{"+", "-", "*", "/", "%", " + ", " - ", "*"}
	gen = func(d int) string {
		s := signs[rng.Intn(len(signs))]
		if d == 0 || rng.Intn(3) == 0 {
			return s + fmt.Sprintf("%d", []int{0, 1, 2, 3, 7, 10, 99, 8000}[rng.Intn(8)])
		}
		body := gen(d-1) + ops[rng.Intn(len(ops))] + gen(d-1)
		if s != "" || rng.Intn(2) == 0 {
			return s + "(" + body + ")"
		}
		return body
	}
	soup := []string{"1", "2", "10", "+", "-", "*", "/", "%", "(", ")", " ", "--", "++", "0"}
	for i := 0; i < n; i++ {
		var text string
		if i%3 == 2 {
			k := 1 + rng.Intn(6)
			for j := 0; j < k; j++ {
				text += soup[rng.Intn(len(soup))]
			}
		} else {
			text = gen(1 + rng.Intn(3))
		}
		mv, merr, why := ex.EvalModelOnText(text)
		if why != "" {
			continue
		}
		fs := gtoken.NewFileSet()
		tv, rerr := types.Eval(fs, nil, gtoken.NoPos, text)
		realErr := rerr != nil || tv.Value == nil
		compared++
		if realErr != merr {
			return compared, fmt.Errorf("eval model disagrees with go/types on %q: model error=%v, real error=%v (%v)", text, merr, realErr, rerr)
		}
		if !realErr {
			rs := tv.Value.String()
			if strings.ContainsAny(rs, "./e") {
				continue // not an integer result
			}
			if rs != fmt.Sprintf("%d", mv) {
				return compared, fmt.Errorf("eval model disagrees with go/types on %q: model %d, real %s", text, mv, rs)
			}
		}
	}
	if compared < n/2 {
		return compared, fmt.Errorf("eval model self-test compared only %d of %d cases", compared, n)
	}
	return compared, nil
}
