package sym

import (
	"fmt"
	"go/types"
	"strings"
	"unicode/utf8"

	"golang.org/x/tools/go/ssa"

	"verif/engine/smt"
)

// resolveCallee evaluates the callee and arguments of a call.
func (ex *Exec) resolveCallee(st *State, fr *Frame, c *ssa.CallCommon) (*FuncV, []Value) {
	var args []Value
	if c.IsInvoke() {
		recv := ex.eval(st, fr, c.Value).(*IfaceV)
		if recv.Typ == nil {
			return nil, nil
		}
		if recv.Typ == evalValueType && c.Method.Name() == "String" {
			return &FuncV{Builtin: "evalValue.String"}, []Value{recv.Val}
		}
		if recv.Typ == opaqueErrType && c.Method.Name() == "Error" {
			return &FuncV{Builtin: "opaqueErr.Error"}, []Value{recv.Val}
		}
		ms := ex.Prog.MethodSets.MethodSet(recv.Typ)
		sel := ms.Lookup(c.Method.Pkg(), c.Method.Name())
		if sel == nil {
			panic(unsupported("method " + c.Method.Name() + " not found on " + recv.Typ.String()))
		}
		fn := ex.Prog.MethodValue(sel)
		args = append(args, recv.Val)
		for _, a := range c.Args {
			args = append(args, ex.eval(st, fr, a))
		}
		if fn == nil {
			return &FuncV{Builtin: "method:" + recv.Typ.String() + "." + c.Method.Name()}, args
		}
		return &FuncV{Fn: fn}, args
	}
	for _, a := range c.Args {
		args = append(args, ex.eval(st, fr, a))
	}
	switch f := c.Value.(type) {
	case *ssa.Function:
		return &FuncV{Fn: f}, args
	case *ssa.Builtin:
		return &FuncV{Builtin: f.Name()}, args
	}
	fv := ex.eval(st, fr, c.Value).(*FuncV)
	if fv.Fn == nil && fv.Builtin == "" {
		return nil, args
	}
	return fv, args
}

func (ex *Exec) call(st *State, fr *Frame, x *ssa.Call, c *ssa.CallCommon) *forkReq {
	fv, args := ex.resolveCallee(st, fr, c)
	if fv == nil {
		ex.mayPanic(st, x, "nil dereference", ex.st.True)
		return nil
	}
	return ex.invoke(st, fr, x, fv, args, x)
}

// invoke calls fv. dst (may be nil) receives the result in the caller's
// environment; in is the calling instruction (for diagnostics). When
// advance is true the caller's IP moves past the call.
func (ex *Exec) invoke(st *State, fr *Frame, dst ssa.Value, fv *FuncV, args []Value, in ssa.Instruction) *forkReq {
	_, isRunDefers := in.(*ssa.RunDefers)
	advance := func() {
		if !isRunDefers {
			fr.IP++
		}
	}
	if fv.Builtin != "" {
		res := ex.builtin(st, fr, fv.Builtin, args, in)
		if st.Dead {
			return nil
		}
		if dst != nil {
			fr.Env[dst] = res
		}
		advance()
		return nil
	}
	fn := fv.Fn
	name := fn.String()
	if fn.Origin() != nil {
		name = fn.Origin().String()
	}
	if h := ex.intrinsic(name); h != nil {
		res, req := h(ex, st, fr, args, in)
		if req != nil {
			return req
		}
		if st.Dead {
			return nil
		}
		if dst != nil {
			fr.Env[dst] = res
		}
		advance()
		return nil
	}
	if st.PendingTokens != nil && fn.Pkg == ex.Pkg {
		switch fn.Name() {
		case "newLexer":
			// no lexer goroutine is started: the token list is already there
			obj := ex.newObj(st, ex.zero(fn.Signature.Results().At(0).Type().(*types.Pointer).Elem()))
			if dst != nil {
				fr.Env[dst] = &Ptr{Obj: obj}
			}
			advance()
			return nil
		case "Tokens":
			if fn.Signature.Recv() != nil {
				toks := st.PendingTokens
				st.PendingTokens = nil
				if dst != nil {
					fr.Env[dst] = &TupleV{[]Value{toks, &IfaceV{}}}
				}
				advance()
				return nil
			}
		}
	}
	if stub, ok := ex.StubTable[name]; ok {
		res, req := stub(ex, st, fr, args, in)
		if req != nil {
			return req
		}
		if st.Dead {
			return nil
		}
		if dst != nil {
			fr.Env[dst] = res
		}
		advance()
		return nil
	}
	if ex.inInit && fn.Name() == "init" && fn.Pkg != ex.initPkg {
		// initialisers of imported packages are skipped
		advance()
		return nil
	}
	if ex.inInit && strings.HasPrefix(name, "embed.") {
		advance()
		return nil
	}
	if len(fn.Blocks) == 0 {
		panic(unsupported("call to external function without body: " + name + " at " + site(in)))
	}
	if fn.Pkg != nil && fn.Pkg != ex.Pkg && fn.Pkg != ex.CmdPkg && !ex.allowedPkg(fn) {
		panic(unsupported("call into unmodelled package function: " + name + " at " + site(in)))
	}
	ex.noteFunc(fn)
	nf := &Frame{Fn: fn, Env: make(map[ssa.Value]Value, 16), FreeVars: fv.Bindings, Call: dst}
	for i, p := range fn.Params {
		nf.Env[p] = args[i]
	}
	advance()
	g := st.Gs[st.Cur]
	if len(g.Stack) > 200 {
		ex.fail(st, "unwind", "unwind:recursion", ex.st.True, "recursion depth > 200 at "+site(in))
		st.Dead = true
		st.Reason = "recursion depth"
		return nil
	}
	g.Stack = append(g.Stack, nf)
	ex.enterBlock(st, nf, nil, fn.Blocks[0])
	// state-function invocation counting (termination bounds of the state machines)
	return nil
}

func (ex *Exec) allowedPkg(fn *ssa.Function) bool {
	if fn.Pkg == nil {
		return true
	}
	switch fn.Pkg.Pkg.Path() {
	case "slices", "cmp":
		return true
	}
	return false
}

func (ex *Exec) builtin(st *State, fr *Frame, name string, args []Value, in ssa.Instruction) Value {
	s := ex.st
	switch name {
	case "len":
		switch v := args[0].(type) {
		case *SliceV:
			return s.BV(uint64(v.Len), 64)
		case *StrV:
			return ex.strLen(v)
		case *MapV:
			if v.Obj == 0 {
				return s.BV(0, 64)
			}
			return s.BV(uint64(len(st.Heap[v.Obj].(*MapContent).Keys)), 64)
		case *ArrayV:
			return s.BV(uint64(len(v.Elems)), 64)
		case *Ptr:
			arr := ex.load(st, v).(*ArrayV)
			return s.BV(uint64(len(arr.Elems)), 64)
		}
	case "cap":
		switch v := args[0].(type) {
		case *SliceV:
			return s.BV(uint64(v.Cap), 64)
		}
	case "append":
		sl := args[0].(*SliceV)
		var add []Value
		var zero Value
		call := in.(ssa.CallInstruction).Common()
		et := call.Args[0].Type().Underlying().(*types.Slice).Elem()
		zero = ex.zero(et)
		switch a := args[1].(type) {
		case *SliceV:
			add = append(add, ex.sliceElems(st, a)...)
		case *StrV:
			c, ok := a.Concrete()
			if !ok {
				panic(unsupported("append([]byte, symbolic string...)"))
			}
			for i := 0; i < len(c); i++ {
				add = append(add, s.BV(uint64(c[i]), 8))
			}
		default:
			panic(unsupported("append with non-slice second argument"))
		}
		if len(add) == 0 {
			return sl
		}
		if sl.Len+len(add) <= sl.Cap && sl.Obj != 0 {
			arr := st.Heap[sl.Obj].(*ArrayV)
			ne := append([]Value(nil), arr.Elems...)
			copy(ne[sl.Off+sl.Len:], add)
			st.Heap[sl.Obj] = &ArrayV{ne}
			return &SliceV{Obj: sl.Obj, Off: sl.Off, Len: sl.Len + len(add), Cap: sl.Cap}
		}
		old := ex.sliceElems(st, sl)
		need := sl.Len + len(add)
		newcap := sl.Cap * 2
		if sl.Cap >= 256 {
			newcap = sl.Cap + (sl.Cap+3*256)/4
		}
		if newcap < need {
			newcap = need
		}
		elems := append(append([]Value(nil), old...), add...)
		return ex.newSlice(st, elems, newcap, zero)
	case "copy":
		dst := args[0].(*SliceV)
		var src []Value
		switch a := args[1].(type) {
		case *SliceV:
			src = ex.sliceElems(st, a)
		default:
			panic(unsupported("copy from non-slice"))
		}
		n := dst.Len
		if len(src) < n {
			n = len(src)
		}
		if n > 0 {
			arr := st.Heap[dst.Obj].(*ArrayV)
			ne := append([]Value(nil), arr.Elems...)
			tmp := append([]Value(nil), src[:n]...)
			copy(ne[dst.Off:dst.Off+n], tmp)
			st.Heap[dst.Obj] = &ArrayV{ne}
		}
		return s.BV(uint64(n), 64)
	case "close":
		ch := args[0].(*ChanV)
		if ch.Obj == 0 {
			ex.mayPanic(st, in, "close of nil channel", s.True)
			return nil
		}
		cc := st.Heap[ch.Obj].(*ChanContent)
		if cc.Closed {
			ex.mayPanic(st, in, "close of closed channel", s.True)
			return nil
		}
		st.Heap[ch.Obj] = &ChanContent{Closed: true}
		// wake receivers blocked on this channel
		for _, g := range st.Gs {
			if g.Status == GBlockedRecv && g.Chan == ch.Obj {
				ex.deliver(st, g, nil, false)
			}
		}
		return nil
	case "delete":
		m := args[0].(*MapV)
		if m.Obj == 0 {
			return nil
		}
		mc := st.Heap[m.Obj].(*MapContent)
		for i, k := range mc.Keys {
			e := ex.deepEq(k, args[1])
			if e.IsTrue() {
				nk := append(append([]Value(nil), mc.Keys[:i]...), mc.Keys[i+1:]...)
				nv := append(append([]Value(nil), mc.Vals[:i]...), mc.Vals[i+1:]...)
				st.Heap[m.Obj] = &MapContent{nk, nv}
				return nil
			}
			if !e.IsFalse() {
				panic(unsupported("delete with symbolic key"))
			}
		}
		return nil
	case "min", "max":
		a, b := args[0].(*smt.Term), args[1].(*smt.Term)
		call := in.(ssa.CallInstruction).Common()
		var lt *smt.Term
		if isSigned(call.Args[0].Type()) {
			lt = s.SLt(a, b)
		} else {
			lt = s.ULt(a, b)
		}
		if name == "min" {
			return s.Ite(lt, a, b)
		}
		return s.Ite(lt, b, a)
	case "evalValue.String":
		return args[0]
	case "opaqueErr.Error":
		return args[0].(*OpaqueErr).Msg
	case "print", "println":
		return nil
	case "recover":
		return &IfaceV{}
	}
	if strings.HasPrefix(name, "method:") {
		panic(unsupported("call of abstract method " + name))
	}
	panic(unsupported(fmt.Sprintf("builtin %s on %T at %s", name, args[0], site(in))))
}

// ---- goroutines and channels (coroutine model) ----

func (ex *Exec) goStmt(st *State, fr *Frame, x *ssa.Go) {
	fv, args := ex.resolveCallee(st, fr, &x.Call)
	if fv == nil || fv.Fn == nil {
		panic(unsupported("go on non-function"))
	}
	fn := fv.Fn
	if len(fn.Blocks) == 0 {
		panic(unsupported("go external function"))
	}
	ex.noteFunc(fn)
	nf := &Frame{Fn: fn, Env: map[ssa.Value]Value{}, FreeVars: fv.Bindings}
	for i, p := range fn.Params {
		nf.Env[p] = args[i]
	}
	g := &Goroutine{Stack: []*Frame{nf}, Name: fn.String()}
	st.Gs = append(st.Gs, g)
	ex.enterBlock(st, nf, nil, fn.Blocks[0])
	fr.IP++
}

// schedule picks the next runnable goroutine when the current one cannot
// continue. No runnable goroutine while main is not done = hang.
func (ex *Exec) schedule(st *State) {
	n := len(st.Gs)
	for k := 1; k <= n; k++ {
		i := (st.Cur + k) % n
		if st.Gs[i].Status == GRunnable {
			st.Cur = i
			return
		}
	}
	// nobody can run
	main := st.Gs[0]
	if main.Status == GDone {
		st.Done = true
		ex.finish(st)
		return
	}
	where := "?"
	if len(main.Stack) > 0 {
		f := main.Stack[len(main.Stack)-1]
		where = site(f.Block.Instrs[f.IP])
	}
	ex.fail(st, "hang", "blocked-forever", ex.st.True, "all goroutines blocked; main at "+where)
	st.Dead = true
	st.Reason = "deadlock"
}

func (ex *Exec) send(st *State, fr *Frame, x *ssa.Send) {
	ch := ex.eval(st, fr, x.Chan).(*ChanV)
	val := ex.eval(st, fr, x.X)
	if ch.Obj == 0 {
		panic(unsupported("send on nil channel"))
	}
	cc := st.Heap[ch.Obj].(*ChanContent)
	if cc.Closed {
		ex.mayPanic(st, x, "send on closed channel", ex.st.True)
		return
	}
	g := st.Gs[st.Cur]
	// a receiver waiting?
	for _, r := range st.Gs {
		if r.Status == GBlockedRecv && r.Chan == ch.Obj {
			ex.deliver(st, r, val, true)
			fr.IP++
			return
		}
	}
	g.Status = GBlockedSend
	g.Chan = ch.Obj
	g.SendVal = val
	ex.schedule(st)
}

// deliver completes a blocked receive of goroutine r.
func (ex *Exec) deliver(st *State, r *Goroutine, val Value, ok bool) {
	rf := r.Stack[len(r.Stack)-1]
	un := rf.Block.Instrs[rf.IP].(*ssa.UnOp)
	if val == nil {
		val = ex.zero(un.X.Type().Underlying().(*types.Chan).Elem())
	}
	if un.CommaOk {
		rf.Env[un] = &TupleV{[]Value{val, ex.st.Bool(ok)}}
	} else {
		rf.Env[un] = val
	}
	rf.IP++
	r.Status = GRunnable
	r.Chan = 0
}

func (ex *Exec) recv(st *State, fr *Frame, x *ssa.UnOp) *forkReq {
	ch := ex.eval(st, fr, x.X).(*ChanV)
	if ch.Obj == 0 {
		panic(unsupported("receive from nil channel"))
	}
	g := st.Gs[st.Cur]
	// a sender parked?
	for _, sg := range st.Gs {
		if sg.Status == GBlockedSend && sg.Chan == ch.Obj {
			val := sg.SendVal
			sg.Status = GRunnable
			sg.SendVal = nil
			sg.Chan = 0
			sf := sg.Stack[len(sg.Stack)-1]
			sf.IP++
			g.Status = GBlockedRecv // deliver expects a blocked receiver
			g.Chan = ch.Obj
			ex.deliver(st, g, val, true)
			return nil
		}
	}
	cc := st.Heap[ch.Obj].(*ChanContent)
	if cc.Closed {
		g.Status = GBlockedRecv
		g.Chan = ch.Obj
		ex.deliver(st, g, nil, false)
		return nil
	}
	g.Status = GBlockedRecv
	g.Chan = ch.Obj
	ex.schedule(st)
	return nil
}

// ---- maps ----

func (ex *Exec) mapFind(st *State, mc *MapContent, key Value) (idx int, cond []*smt.Term) {
	// returns index when the key is concretely present, or -1; cond[i] is the
	// equality condition with entry i
	cond = make([]*smt.Term, len(mc.Keys))
	idx = -1
	for i, k := range mc.Keys {
		cond[i] = ex.deepEq(k, key)
		if cond[i].IsTrue() && idx < 0 {
			idx = i
		}
	}
	return
}

func (ex *Exec) lookup(st *State, fr *Frame, x *ssa.Lookup) *forkReq {
	v := ex.eval(st, fr, x.X)
	key := ex.eval(st, fr, x.Index)
	s := ex.st
	switch m := v.(type) {
	case *StrV:
		// s[i] on strings
		res, dead := ex.strIndex(st, x, m, key)
		if dead {
			return nil
		}
		fr.Env[x] = res
		fr.IP++
		return nil
	case *MapV:
		et := x.X.Type().Underlying().(*types.Map).Elem()
		zero := ex.zero(et)
		if m.Obj == 0 {
			if x.CommaOk {
				fr.Env[x] = &TupleV{[]Value{zero, s.False}}
			} else {
				fr.Env[x] = zero
			}
			fr.IP++
			return nil
		}
		mc := st.Heap[m.Obj].(*MapContent)
		// split symbolic string keys into their alternatives
		if ks, ok := key.(*StrV); ok && len(ks.Alts) > 1 {
			return ex.splitStr(st, fr, x.Index, ks)
		}
		_, conds := ex.mapFind(st, mc, key)
		// result = ite chain
		var res Value = zero
		found := s.False
		okMerge := true
		for i := len(mc.Keys) - 1; i >= 0; i-- {
			if conds[i].IsFalse() {
				continue
			}
			r, ok := ex.mergeVal(conds[i], mc.Vals[i], res)
			if !ok {
				okMerge = false
				break
			}
			res = r
			found = s.Or(found, conds[i])
		}
		if !okMerge {
			// fork on which entry matches
			return ex.splitConds(st, fr, x, conds, func(ch *State, i int) {
				cf := ch.top()
				var r Value = zero
				okv := s.False
				if i >= 0 {
					r = mc.Vals[i]
					okv = s.True
				}
				if x.CommaOk {
					cf.Env[x] = &TupleV{[]Value{r, okv}}
				} else {
					cf.Env[x] = r
				}
				cf.IP++
			})
		}
		if x.CommaOk {
			fr.Env[x] = &TupleV{[]Value{res, found}}
		} else {
			fr.Env[x] = res
		}
		fr.IP++
		return nil
	}
	panic(unsupported(fmt.Sprintf("Lookup on %T", v)))
}

// splitStr forks the state over the alternatives of a symbolic string held
// in SSA value v, binding v to the concrete alternative in each child; the
// current instruction is then re-executed.
func (ex *Exec) splitStr(st *State, fr *Frame, v ssa.Value, ks *StrV) *forkReq {
	if _, isConst := v.(*ssa.Const); isConst {
		panic("split of constant")
	}
	var children []*State
	for _, a := range ks.Alts {
		g := ex.guard(a.G)
		if st.Prune && !ex.feasible(st, g) {
			ex.Stat.Pruned++
			continue
		}
		ch := st.Clone()
		ch.addPC(g)
		ch.top().Env[v] = &StrV{[]StrAlt{{P: a.P}}}
		children = append(children, ch)
	}
	return &forkReq{children: children}
}

// splitConds forks over mutually exclusive conditions conds[i] plus the
// "none" case (i = -1), applying fn to each child.
func (ex *Exec) splitConds(st *State, fr *Frame, in ssa.Instruction, conds []*smt.Term, fn func(ch *State, i int)) *forkReq {
	s := ex.st
	var children []*State
	none := s.True
	prior := s.False
	for i, c := range conds {
		if c.IsFalse() {
			continue
		}
		eff := s.And(c, s.Not(prior))
		prior = s.Or(prior, c)
		none = s.And(none, s.Not(c))
		if st.Prune && !ex.feasible(st, eff) {
			ex.Stat.Pruned++
			continue
		}
		ch := st.Clone()
		ch.addPC(eff)
		fn(ch, i)
		children = append(children, ch)
	}
	if !none.IsFalse() && (!st.Prune || ex.feasible(st, none)) {
		ch := st.Clone()
		ch.addPC(none)
		fn(ch, -1)
		children = append(children, ch)
	}
	return &forkReq{children: children}
}

func (ex *Exec) mapUpdate(st *State, fr *Frame, x *ssa.MapUpdate) *forkReq {
	m := ex.eval(st, fr, x.Map).(*MapV)
	key := ex.eval(st, fr, x.Key)
	val := ex.eval(st, fr, x.Value)
	if m.Obj == 0 {
		ex.mayPanic(st, x, "assignment to entry in nil map", ex.st.True)
		return nil
	}
	if ks, ok := key.(*StrV); ok && len(ks.Alts) > 1 {
		return ex.splitStr(st, fr, x.Key, ks)
	}
	ex.noteInitObjWrite(st, m.Obj)
	mc := st.Heap[m.Obj].(*MapContent)
	idx, conds := ex.mapFind(st, mc, key)
	if idx >= 0 {
		nv := append([]Value(nil), mc.Vals...)
		nv[idx] = val
		st.Heap[m.Obj] = &MapContent{mc.Keys, nv}
		fr.IP++
		return nil
	}
	anySym := false
	for _, c := range conds {
		if !c.IsFalse() {
			anySym = true
		}
	}
	if anySym {
		return ex.splitConds(st, fr, x, conds, func(ch *State, i int) {
			cmc := ch.Heap[m.Obj].(*MapContent)
			if i >= 0 {
				nv := append([]Value(nil), cmc.Vals...)
				nv[i] = val
				ch.Heap[m.Obj] = &MapContent{cmc.Keys, nv}
			} else {
				ch.Heap[m.Obj] = &MapContent{append(append([]Value(nil), cmc.Keys...), key), append(append([]Value(nil), cmc.Vals...), val)}
			}
			ch.top().IP++
		})
	}
	st.Heap[m.Obj] = &MapContent{append(append([]Value(nil), mc.Keys...), key), append(append([]Value(nil), mc.Vals...), val)}
	fr.IP++
	return nil
}

func (ex *Exec) rangeInit(st *State, fr *Frame, x *ssa.Range) {
	v := ex.eval(st, fr, x.X)
	switch m := v.(type) {
	case *MapV:
		it := &MapIterV{Obj: m.Obj}
		if m.Obj != 0 {
			mc := st.Heap[m.Obj].(*MapContent)
			n := len(mc.Keys)
			it.Order = make([]int, n)
			for i := range it.Order {
				it.Order[i] = i
			}
			if st.MapPerm && n > 1 {
				// nondeterministic iteration order: permutation chosen by fresh choices
				ex.permute(st, it)
			}
		}
		fr.Env[x] = it
	case *StrV:
		c, ok := m.Concrete()
		if !ok {
			panic(unsupported("range over symbolic string"))
		}
		fr.Env[x] = &MapIterV{IsStr: true, Str: c}
	default:
		panic(unsupported(fmt.Sprintf("range over %T", v)))
	}
	fr.IP++
}

// permute draws a concrete permutation from the job parameter "maporder"
// (the driver enumerates all permutation seeds as separate jobs).
func (ex *Exec) permute(st *State, it *MapIterV) {
	seed := ex.Params["maporder"]
	cnt := st.Counters["$range"]
	st.Counters["$range"]++
	n := len(it.Order)
	// derive a permutation index from the seed and the range-site counter
	k := seed
	for i := 0; i < cnt; i++ {
		k = k/7 + k*3 + 1
	}
	// Lehmer code
	avail := append([]int(nil), it.Order...)
	var out []int
	for i := n; i > 0; i-- {
		j := k % i
		k /= i
		out = append(out, avail[j])
		avail = append(avail[:j], avail[j+1:]...)
	}
	it.Order = out
}

func (ex *Exec) next(st *State, fr *Frame, x *ssa.Next) {
	it := ex.eval(st, fr, x.Iter).(*MapIterV)
	s := ex.st
	if x.IsString {
		if it.Pos >= len(it.Str) {
			fr.Env[x] = &TupleV{[]Value{s.False, s.BV(0, 64), s.BV(0, 32)}}
		} else {
			r, size := utf8.DecodeRuneInString(it.Str[it.Pos:])
			fr.Env[x] = &TupleV{[]Value{s.True, s.BV(uint64(it.Pos), 64), s.BV(uint64(uint32(r)), 32)}}
			nit := *it
			nit.Pos += size
			ex.rebindIter(fr, x.Iter, &nit)
		}
		fr.IP++
		return
	}
	mt := x.Iter.(*ssa.Range).X.Type().Underlying().(*types.Map)
	if it.Obj == 0 || it.Pos >= len(it.Order) {
		fr.Env[x] = &TupleV{[]Value{s.False, ex.zero(mt.Key()), ex.zero(mt.Elem())}}
		fr.IP++
		return
	}
	mc := st.Heap[it.Obj].(*MapContent)
	i := it.Order[it.Pos]
	nit := *it
	nit.Pos++
	ex.rebindIter(fr, x.Iter, &nit)
	if i >= len(mc.Keys) {
		panic(unsupported("map shrank during iteration"))
	}
	fr.Env[x] = &TupleV{[]Value{s.True, mc.Keys[i], mc.Vals[i]}}
	fr.IP++
}

func (ex *Exec) rebindIter(fr *Frame, v ssa.Value, it *MapIterV) {
	fr.Env[v] = it
}

// ---- string slicing ----

func (ex *Exec) strSlice(st *State, fr *Frame, x *ssa.Slice, sv *StrV) {
	get := func(val ssa.Value) (int, bool, bool) {
		if val == nil {
			return 0, false, true
		}
		c, ok := ex.constInt(ex.eval(st, fr, val))
		return c, true, ok
	}
	lo, hasLo, ok1 := get(x.Low)
	hi, hasHi, ok2 := get(x.High)
	fromEnd := -1
	if ok1 && !ok2 && x.High != nil {
		// s[lo : len(s)-k]: the bound is the (possibly symbolic) length minus a constant
		hiT, isT := ex.eval(st, fr, x.High).(*smt.Term)
		if isT {
			lenT := ex.strLen(sv)
			for k := 0; k <= 16; k++ {
				if ex.st.Sub(lenT, ex.st.BV(uint64(k), 64)) == hiT {
					fromEnd = k
					break
				}
			}
		}
		if fromEnd >= 0 {
			ok2, hasHi = true, false
		}
	}
	if !ok1 && x.High == nil {
		// s[len(s)-k:]: keep the last k bytes
		if loT, isT := ex.eval(st, fr, x.Low).(*smt.Term); isT {
			lenT := ex.strLen(sv)
			for k := 0; k <= 16; k++ {
				if ex.st.Sub(lenT, ex.st.BV(uint64(k), 64)) == loT {
					var bad []*smt.Term
					var alts []StrAlt
					for _, a := range sv.Alts {
						ex.ropeSuffix(st, ex.guard(a.G), a.P, k, nil, &alts, &bad)
					}
					if ex.mayPanic(st, x, "slice bounds out of range", ex.st.Or(bad...)) {
						return
					}
					fr.Env[x] = ex.normStr(alts)
					fr.IP++
					return
				}
			}
		}
	}
	if !ok1 || !ok2 {
		panic(unsupported("string slice with symbolic bounds at " + site(x)))
	}
	var bad []*smt.Term
	var alts []StrAlt
	for _, a := range sv.Alts {
		if fromEnd >= 0 {
			// drop fromEnd bytes from the end (they must lie in a trailing literal)
			ps := append([]Piece(nil), a.P...)
			n := len(ps)
			if fromEnd == 0 {
				// nothing to drop
			} else if n == 0 || !ps[n-1].isLit() || len(ps[n-1].Lit) < fromEnd {
				tot, isLit := a.lit()
				if isLit && len(tot) < fromEnd {
					bad = append(bad, ex.guard(a.G))
					continue
				}
				panic(unsupported("slice from the end of rope " + piecesString(a.P)))
			} else {
				ps[n-1] = Piece{Lit: ps[n-1].Lit[:len(ps[n-1].Lit)-fromEnd]}
			}
			if hasLo && lo > 0 {
				if len(ps) == 0 || !ps[0].isLit() || len(ps[0].Lit) < lo {
					panic(unsupported("slice of rope " + piecesString(a.P)))
				}
				ps[0] = Piece{Lit: ps[0].Lit[lo:]}
			}
			alts = append(alts, StrAlt{G: a.G, P: ps})
			continue
		}
		l, ok := a.lit()
		if !ok {
			// rope: allow slicing off a literal prefix
			if hasLo && !hasHi && len(a.P) > 0 && a.P[0].isLit() && lo <= len(a.P[0].Lit) {
				ps := append([]Piece{{Lit: a.P[0].Lit[lo:]}}, a.P[1:]...)
				alts = append(alts, StrAlt{G: a.G, P: ps})
				continue
			}
			panic(unsupported("slice of rope " + piecesString(a.P) + " at " + site(x)))
		}
		h := len(l)
		if hasHi {
			h = hi
		}
		lw := 0
		if hasLo {
			lw = lo
		}
		if lw < 0 || h < lw || h > len(l) {
			bad = append(bad, ex.guard(a.G))
			continue
		}
		alts = append(alts, StrAlt{G: a.G, P: []Piece{{Lit: l[lw:h]}}})
	}
	if ex.mayPanic(st, x, "slice bounds out of range", ex.st.Or(bad...)) {
		return
	}
	fr.Env[x] = ex.normStr(alts)
	fr.IP++
}

// ropeSuffix emits, into out, the last r bytes of the rope ps (under guard g)
// followed by tail. Decimal pieces are split by rendered length; cutting a
// numeral is supported only where it removes exactly the minus sign.
func (ex *Exec) ropeSuffix(st *State, g *smt.Term, ps []Piece, r int, tail []Piece, out *[]StrAlt, bad *[]*smt.Term) {
	s := ex.st
	if r == 0 {
		*out = append(*out, StrAlt{G: g, P: tail})
		return
	}
	if len(ps) == 0 {
		*bad = append(*bad, g)
		return
	}
	p := ps[len(ps)-1]
	rest := ps[:len(ps)-1]
	switch {
	case p.isLit():
		if len(p.Lit) >= r {
			*out = append(*out, StrAlt{G: g, P: append([]Piece{{Lit: p.Lit[len(p.Lit)-r:]}}, tail...)})
			return
		}
		ex.ropeSuffix(st, g, rest, r-len(p.Lit), append([]Piece{p}, tail...), out, bad)
	case p.Dec != nil:
		dl := ex.decLen(p.Dec, p.Signed)
		for n := 1; n <= 20; n++ {
			gn := s.And(g, s.Eq(dl, s.BV(uint64(n), 64)))
			if gn.IsFalse() || !ex.feasible(st, gn) {
				continue
			}
			if n <= r {
				ex.ropeSuffix(st, gn, rest, r-n, append([]Piece{p}, tail...), out, bad)
				continue
			}
			neg := s.False
			if p.Signed {
				neg = s.SLt(p.Dec, s.BV(0, p.Dec.W))
			}
			if n == r+1 {
				if gneg := s.And(gn, neg); !gneg.IsFalse() && ex.feasible(st, gneg) {
					// the cut removes the minus sign
					*out = append(*out, StrAlt{G: gneg, P: append([]Piece{{Dec: s.Neg(p.Dec), Signed: false}}, tail...)})
				}
				gn = s.And(gn, s.Not(neg))
				if gn.IsFalse() || !ex.feasible(st, gn) {
					continue
				}
			}
			panic(unsupported("string slice cutting digits off a symbolic numeral"))
		}
	default:
		panic(unsupported("string slice through a symbolic rune"))
	}
}

// strIndex evaluates s[i] for a concrete index (shared by Index and Lookup).
func (ex *Exec) strIndex(st *State, x ssa.Instruction, m *StrV, key Value) (*smt.Term, bool) {
	s := ex.st
	idx, ok := ex.constInt(key)
	if !ok {
		panic(unsupported("string index with symbolic index"))
	}
	bad := []*smt.Term{}
	var res *smt.Term
	for i := len(m.Alts) - 1; i >= 0; i-- {
		a := m.Alts[i]
		l, isLit := a.lit()
		if !isLit {
			if len(a.P) > 0 && a.P[0].isLit() && idx >= 0 && idx < len(a.P[0].Lit) {
				l = a.P[0].Lit
			} else {
				panic(unsupported("string index into rope " + piecesString(a.P)))
			}
		}
		var b uint64
		if idx < 0 || idx >= len(l) {
			bad = append(bad, ex.guard(a.G))
		} else {
			b = uint64(l[idx])
		}
		v := s.BV(b, 8)
		if res == nil {
			res = v
		} else {
			res = s.Ite(ex.guard(a.G), v, res)
		}
	}
	if ex.mayPanic(st, x, "string index out of range", s.Or(bad...)) {
		return nil, true
	}
	return res, false
}
