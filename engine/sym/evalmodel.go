package sym

import (
	"strconv"

	"verif/engine/smt"
)

// A trusted model of go/types.Eval on integer constant expressions given as
// ropes: literal text over digits, + - * / % ( ), white space, plus numeral
// atoms (decimal renderings of 64-bit terms). Go's lexer rules that matter
// are modelled: "++" and "--" are single tokens (syntax error here), a
// numeral directly followed by another numeral or a leading-zero octal
// literal is not accepted (fails closed). Arithmetic is exact as long as no
// intermediate result leaves 63 bits; the harnesses bound their literals so
// that this holds, and a result that may overflow aborts the path as
// unsupported rather than being wrapped silently.

type evTok struct {
	kind byte // 'n' number, 'o' operator, '(' ')' 'e' end, 'x' other
	op   string
	val  *smt.Term // for numbers
}

type evalErr struct{}

func (ex *Exec) evalLex(ps []Piece) ([]evTok, bool) {
	var toks []evTok
	for _, p := range ps {
		if p.Rune != nil {
			return nil, false
		}
		if p.Dec != nil {
			if p.Signed {
				// a signed numeral may render with a leading '-': only
				// supported when it is known to be non-negative
				lo, _ := ex.st.Interval(p.Dec)
				_ = lo
			}
			// adjacency: numeral directly after a numeral is one longer numeral in Go
			if n := len(toks); n > 0 && toks[n-1].kind == 'n' && toks[n-1].op == "adj" {
				return nil, false
			}
			toks = append(toks, evTok{kind: 'n', val: p.Dec, op: "adj"})
			continue
		}
		s := p.Lit
		i := 0
		for i < len(s) {
			c := s[i]
			switch {
			case c == ' ' || c == '\t':
				if n := len(toks); n > 0 && toks[n-1].kind == 'n' {
					toks[n-1].op = ""
				}
				i++
			case c >= '0' && c <= '9':
				j := i
				for j < len(s) && s[j] >= '0' && s[j] <= '9' {
					j++
				}
				txt := s[i:j]
				if n := len(toks); n > 0 && toks[n-1].kind == 'n' && toks[n-1].op == "adj" {
					return nil, false
				}
				if len(txt) > 1 && txt[0] == '0' {
					return nil, false // octal literal: not modelled
				}
				v, err := strconv.ParseUint(txt, 10, 62)
				if err != nil {
					return nil, false
				}
				toks = append(toks, evTok{kind: 'n', val: ex.st.BV(v, 64), op: "adj"})
				i = j
			case c == '+' || c == '-':
				if i+1 < len(s) && s[i+1] == c {
					toks = append(toks, evTok{kind: 'x', op: string(c) + string(c)})
					i += 2
				} else {
					toks = append(toks, evTok{kind: 'o', op: string(c)})
					i++
				}
			case c == '*' || c == '%':
				toks = append(toks, evTok{kind: 'o', op: string(c)})
				i++
			case c == '/':
				if i+1 < len(s) && (s[i+1] == '/' || s[i+1] == '*') {
					return nil, false // comments: not modelled
				}
				toks = append(toks, evTok{kind: 'o', op: "/"})
				i++
			case c == '(' || c == ')':
				toks = append(toks, evTok{kind: c})
				i++
			default:
				toks = append(toks, evTok{kind: 'x', op: string(c)})
				i++
			}
			// a sign or operator after a numeral ends its adjacency
			if n := len(toks); n >= 2 && toks[n-1].kind != 'n' && toks[n-2].kind == 'n' {
				toks[n-2].op = ""
			}
		}
	}
	// "+" "+" across piece boundaries ("+" literal then "+..." literal) were
	// merged by normPieces already; adjacency of a literal sign and a negative
	// signed numeral is handled by the caller
	toks = append(toks, evTok{kind: 'e'})
	return toks, true
}

type evParser struct {
	ex   *Exec
	st   *State
	toks []evTok
	pos  int
	// divZero collects the conditions under which some divisor is zero
	divZero []*smt.Term
	bad     bool // syntax error
	unsup   string
}

func (p *evParser) peek() evTok { return p.toks[p.pos] }
func (p *evParser) next() evTok { t := p.toks[p.pos]; p.pos++; return t }

func (p *evParser) fits(t *smt.Term) {
	// the result must stay inside 62 bits, otherwise exactness is lost
	s := p.ex.st
	lim := s.BV(1<<61, 64)
	ok := s.And(s.SLt(t, lim), s.SLt(s.Neg(lim), t))
	if !ok.IsTrue() && p.ex.feasible(p.st, s.Not(ok)) {
		p.unsup = "constant expression may leave 62 bits"
	}
}

// expr := term (('+'|'-') term)*
func (p *evParser) expr() *smt.Term {
	s := p.ex.st
	v := p.term()
	for !p.bad && p.peek().kind == 'o' && (p.peek().op == "+" || p.peek().op == "-") {
		op := p.next().op
		r := p.term()
		if p.bad {
			return v
		}
		if op == "+" {
			v = s.Add(v, r)
		} else {
			v = s.Sub(v, r)
		}
		p.fits(v)
	}
	return v
}

// term := unary (('*'|'/'|'%') unary)*
func (p *evParser) term() *smt.Term {
	s := p.ex.st
	v := p.unary()
	for !p.bad && p.peek().kind == 'o' && (p.peek().op == "*" || p.peek().op == "/" || p.peek().op == "%") {
		op := p.next().op
		r := p.unary()
		if p.bad {
			return v
		}
		switch op {
		case "*":
			if p.st.AbstractArith && !v.IsConst() && !r.IsConst() {
				v = s.SignedUF("mul", v, r)
			} else {
				v = s.Mul(v, r)
				p.fits(v)
			}
		case "/", "%":
			p.divZero = append(p.divZero, s.Eq(r, s.BV(0, 64)))
			name, sop := "uf_div", smt.OpSDiv
			if op == "%" {
				name, sop = "uf_rem", smt.OpSRem
			}
			if p.st.AbstractArith && !r.IsConst() {
				v = s.SignedUF(name[3:], v, r)
			} else {
				v = s.Bin(sop, v, r)
			}
		}
	}
	return v
}

// unary := ('+'|'-') unary | primary
func (p *evParser) unary() *smt.Term {
	t := p.peek()
	if t.kind == 'o' && (t.op == "+" || t.op == "-") {
		p.next()
		v := p.unary()
		if t.op == "-" {
			return p.ex.st.Neg(v)
		}
		return v
	}
	return p.primary()
}

func (p *evParser) primary() *smt.Term {
	if p.peek().kind == 'e' {
		p.bad = true
		return p.ex.st.BV(0, 64)
	}
	t := p.next()
	switch t.kind {
	case 'n':
		return t.val
	case '(':
		v := p.expr()
		if p.peek().kind != ')' {
			p.bad = true
			return v
		}
		p.next()
		return v
	}
	p.bad = true
	return p.ex.st.BV(0, 64)
}

// evalRope evaluates a rope; returns (value, divZeroCond, syntaxError, unsupportedReason).
func (ex *Exec) evalRope(st *State, ps []Piece) (*smt.Term, *smt.Term, bool, string) {
	toks, ok := ex.evalLex(ps)
	if !ok {
		return nil, nil, false, "expression text outside the modelled alphabet: " + piecesString(ps)
	}
	for _, t := range toks {
		if t.kind == 'x' {
			// '++' / '--' or a character Go rejects in a constant expression
			return nil, nil, true, ""
		}
	}
	// signed numerals must be non-negative (their rendering would start with '-')
	for _, p := range ps {
		if p.Dec != nil && p.Signed {
			neg := ex.st.SLt(p.Dec, ex.st.BV(0, 64))
			if !neg.IsFalse() && ex.feasible(st, neg) {
				return nil, nil, false, "possibly negative numeral inside an expression"
			}
		}
	}
	p := &evParser{ex: ex, st: st, toks: toks}
	v := p.expr()
	if !p.bad && p.peek().kind != 'e' {
		p.bad = true
	}
	if p.bad {
		return nil, nil, true, ""
	}
	if p.unsup != "" {
		return nil, nil, false, p.unsup
	}
	return v, ex.st.Or(p.divZero...), false, ""
}

// EvalModelOnText runs the expression model on concrete text, with every
// digit string turned into a numeral atom (as the ropes of the harnesses
// carry them). Used by the self-test against the real go/types.Eval.
func (ex *Exec) EvalModelOnText(text string) (val int64, isErr bool, unsupportedWhy string) {
	var ps []Piece
	i := 0
	for i < len(text) {
		c := text[i]
		if c >= '0' && c <= '9' {
			j := i
			for j < len(text) && text[j] >= '0' && text[j] <= '9' {
				j++
			}
			txt := text[i:j]
			if len(txt) > 1 && txt[0] == '0' {
				return 0, false, "octal"
			}
			v, err := strconv.ParseUint(txt, 10, 62)
			if err != nil {
				return 0, false, "big literal"
			}
			ps = append(ps, Piece{Dec: ex.st.BV(v, 64), Signed: false})
			i = j
			continue
		}
		j := i
		for j < len(text) && !(text[j] >= '0' && text[j] <= '9') {
			j++
		}
		ps = append(ps, Piece{Lit: text[i:j]})
		i = j
	}
	st := &State{Heap: map[int]Value{}, Counters: map[string]int{}, Reached: map[string]bool{}, StateFnCt: map[string]int{}}
	v, dz, synErr, why := ex.evalRope(st, ps)
	if why != "" {
		return 0, false, why
	}
	if synErr {
		return 0, true, ""
	}
	if !dz.IsConst() || !v.IsConst() {
		return 0, false, "non-constant result"
	}
	if dz.IsTrue() {
		return 0, true, ""
	}
	return int64(v.Val), false, ""
}
