package sym

import (
	"fmt"
	"go/constant"
	"go/token"
	"go/types"
	"strings"

	"golang.org/x/tools/go/ssa"

	"verif/engine/smt"
)

type Stat struct {
	Forks        int
	Merges       int
	Pruned       int
	Steps        int
	Paths        int
	Splits       int
	UnwindFails  int
	Asserts      int // vAssert calls executed (on all paths)
	AssertsConst int // of those, decided by the term simplifier (concrete paths, syntactically equal terms)
}

type Exec struct {
	st     *smt.Store
	Solver *smt.Solver
	Prog   *ssa.Program
	Pkg    *ssa.Package

	nextObj int
	pdom    map[*ssa.Function][]*ssa.BasicBlock
	nphi    map[*ssa.BasicBlock]int

	Params map[string]int
	Known  map[string]bool
	Stat   Stat
	Debug  bool

	FuncsVisited map[string]int
	Unknowns     []string // inconclusive solver answers
	MaxSteps     int
	StubTable    map[string]stubFn
	Tapes        map[string]bool
	ufCounter    int
	EvalSamples  []string
	orphans      []*State
	inInit       bool
	// UnsupportedPaths: feasible paths abandoned at an unsupported construct
	UnsupportedPaths []string
	initObjMax   int // objects up to this id were allocated by package initialisation
	initPkg      *ssa.Package
	CmdPkg       *ssa.Package
	globalIdx    map[*ssa.Global]int
}

func NewExec(st *smt.Store, solver *smt.Solver, prog *ssa.Program, pkg *ssa.Package) *Exec {
	ex := &Exec{st: st, Solver: solver, Prog: prog, Pkg: pkg,
		pdom: map[*ssa.Function][]*ssa.BasicBlock{}, nphi: map[*ssa.BasicBlock]int{},
		Params: map[string]int{}, Known: map[string]bool{}, FuncsVisited: map[string]int{},
		MaxSteps: 50_000_000}
	ex.initStubs()
	return ex
}

func (ex *Exec) Store() *smt.Store { return ex.st }

func (ex *Exec) newObj(st *State, v Value) int {
	ex.nextObj++
	st.Heap[ex.nextObj] = v
	return ex.nextObj
}

type forkReq struct {
	isIf     bool
	cond     *smt.Term // for If
	children []*State  // for split: ready-to-run children
}

// NewState creates the initial state positioned at the entry of fn.
func (ex *Exec) NewState(fn *ssa.Function) *State {
	s := &State{Heap: map[int]Value{}, Counters: map[string]int{}, Reached: map[string]bool{}, Unwind: 64, Prune: true, StateFnCt: map[string]int{}, CLIExit: -1}
	fr := &Frame{Fn: fn, Env: map[ssa.Value]Value{}}
	s.Gs = []*Goroutine{{Stack: []*Frame{fr}, Name: "main"}}
	ex.enterBlock(s, fr, nil, fn.Blocks[0])
	return s
}

// Run executes the harness entry to completion and returns all final states.
func (ex *Exec) Run(fn *ssa.Function) []*State {
	// package-level variable initialisers of the package under test (and of
	// the harness files overlaid into it) run first; initialisers of imported
	// packages are not executed (their variables are only reached through
	// modelled functions)
	var s *State
	pkgs := []*ssa.Package{ex.Pkg}
	if fn.Pkg != nil && fn.Pkg != ex.Pkg {
		pkgs = append(pkgs, fn.Pkg)
	}
	for _, p := range pkgs {
		init := p.Func("init")
		if init == nil || len(init.Blocks) == 0 {
			continue
		}
		if s == nil {
			s = ex.NewState(init)
		} else {
			fr := &Frame{Fn: init, Env: map[ssa.Value]Value{}}
			s.Gs = []*Goroutine{{Stack: []*Frame{fr}, Name: "main"}}
			s.Cur = 0
			s.Done = false
			ex.enterBlock(s, fr, nil, init.Blocks[0])
		}
		s.Prune = true
		ex.inInit = true
		ex.initPkg = p
		outs := ex.runTo(s, 0, 1, nil)
		ex.inInit = false
		var live []*State
		for _, o := range outs {
			if o.Done && !o.Dead {
				live = append(live, o)
			}
		}
		if len(live) != 1 {
			panic(unsupported(fmt.Sprintf("package initialisation produced %d states", len(live))))
		}
		s = live[0]
	}
	if s != nil {
		ex.initObjMax = ex.nextObj
		s.Done = false
		s.Oblig = nil
		s.Steps = 0
		s.SharedWrites = nil
		fr := &Frame{Fn: fn, Env: map[ssa.Value]Value{}}
		s.Gs = []*Goroutine{{Stack: []*Frame{fr}, Name: "main"}}
		s.Cur = 0
		ex.enterBlock(s, fr, nil, fn.Blocks[0])
	} else {
		s = ex.NewState(fn)
	}
	ex.noteFunc(fn)
	return ex.runTo(s, 0, 1, nil)
}

func (ex *Exec) noteFunc(fn *ssa.Function) {
	name := fn.String()
	if _, ok := ex.FuncsVisited[name]; !ok {
		n := 0
		for _, b := range fn.Blocks {
			n += len(b.Instrs)
		}
		ex.FuncsVisited[name] = n
	}
}

func (ex *Exec) numPhis(b *ssa.BasicBlock) int {
	if n, ok := ex.nphi[b]; ok {
		return n
	}
	n := 0
	for _, in := range b.Instrs {
		if _, ok := in.(*ssa.Phi); ok {
			n++
		} else {
			break
		}
	}
	ex.nphi[b] = n
	return n
}

// enterBlock transfers control of frame fr to block `to` coming from `from`,
// evaluating the phi nodes.
func (ex *Exec) enterBlock(s *State, fr *Frame, from, to *ssa.BasicBlock) {
	n := ex.numPhis(to)
	if n > 0 {
		edge := -1
		for i, p := range to.Preds {
			if p == from {
				edge = i
				break
			}
		}
		if edge < 0 {
			panic("phi: predecessor not found")
		}
		vals := make([]Value, n)
		for i := 0; i < n; i++ {
			phi := to.Instrs[i].(*ssa.Phi)
			vals[i] = ex.eval(s, fr, phi.Edges[edge])
		}
		for i := 0; i < n; i++ {
			fr.Env[to.Instrs[i].(*ssa.Phi)] = vals[i]
		}
	}
	// loop header visit counting (back edge: target dominates source)
	if from != nil && to.Dominates(from) {
		if fr.Visits == nil {
			fr.Visits = map[int]int{}
		}
		fr.Visits[to.Index]++
	}
	fr.Prev = from
	fr.Block = to
	fr.IP = n
}

// runTo runs s until goroutine g has stack depth `depth` and sits at the
// start of block stop, or its frame at that depth has returned, or the state
// is finished or dead. It returns the resulting states (merged where
// possible).
func (ex *Exec) runTo(s *State, g int, depth int, stop *ssa.BasicBlock) []*State {
	work := []*State{s}
	var done []*State
	for len(work) > 0 {
		st := work[len(work)-1]
		work = work[:len(work)-1]
		for {
			if st.Dead || st.Done {
				done = append(done, st)
				break
			}
			if st.Cur == g {
				d := st.depth()
				if d < depth {
					done = append(done, st)
					break
				}
				if d == depth && stop != nil {
					fr := st.top()
					if fr.Block == stop && fr.IP == ex.numPhis(stop) {
						done = append(done, st)
						break
					}
				}
			}
			req := ex.stepLocal(st)
			if req == nil {
				continue
			}
			st.Forked = true
			if !req.isIf {
				for _, c := range req.children {
					c.Forked = true
				}
				ex.Stat.Splits++
				work = append(work, req.children...)
				break
			}
			// symbolic branch
			fr := st.top()
			blk := fr.Block
			j := ex.ipdom(fr.Fn, blk)
			_ = j
			d := st.depth()
			gg := st.Cur
			var feasT, feasF = true, true
			// inside a loop iteration past the first, branches are always
			// checked, so that loops with symbolic conditions terminate
			inLoop := fr.Visits != nil && fr.Visits[blk.Index] > 0
			if st.Prune || inLoop {
				feasT, feasF = ex.feasibleBoth(st, req.cond)
			}
			var outs []*State
			if feasT && feasF {
				ex.Stat.Forks++
				sT := st.Clone()
				sF := st
				sT.addPC(req.cond)
				ex.enterBlock(sT, sT.top(), blk, blk.Succs[0])
				sF.addPC(ex.st.Not(req.cond))
				ex.enterBlock(sF, sF.top(), blk, blk.Succs[1])
				if ex.unwindExceeded(sT) {
					ex.unwindFail(sT)
				}
				if ex.unwindExceeded(sF) {
					ex.unwindFail(sF)
				}
				outs = append(outs, ex.runTo(sT, gg, d, j)...)
				outs = append(outs, ex.runTo(sF, gg, d, j)...)
				outs = ex.mergeAll(outs)
			} else if feasT {
				ex.Stat.Pruned++
				st.addPC(req.cond)
				ex.enterBlock(st, st.top(), blk, blk.Succs[0])
				if ex.unwindExceeded(st) {
					ex.unwindFail(st)
				}
				outs = []*State{st}
			} else if feasF {
				ex.Stat.Pruned++
				st.addPC(ex.st.Not(req.cond))
				ex.enterBlock(st, st.top(), blk, blk.Succs[1])
				if ex.unwindExceeded(st) {
					ex.unwindFail(st)
				}
				outs = []*State{st}
			} else {
				// path condition itself infeasible
				ex.Stat.Pruned++
				st.Dead = true
				st.Reason = "infeasible"
				outs = nil
			}
			work = append(work, outs...)
			break
		}
	}
	out := ex.mergeAll(done)
	// lazy pruning: a join that leaves several live states (values that
	// cannot be merged) is the point where infeasible ones are dropped
	live := 0
	for _, o := range out {
		if !o.Dead {
			live++
		}
	}
	if live > 1 {
		var kept []*State
		for _, o := range out {
			if o.Dead || o.Prune || (o.FeasLen == len(o.PC) && o.FeasLen > 0) || ex.feasible(o, ex.st.True) {
				o.FeasLen = len(o.PC)
				kept = append(kept, o)
			} else {
				ex.Stat.Pruned++
			}
		}
		out = kept
	}
	return out
}

func (ex *Exec) unwindExceeded(st *State) bool {
	fr := st.top()
	if fr.Visits == nil {
		return false
	}
	return fr.Visits[fr.Block.Index] > st.Unwind
}

func (ex *Exec) unwindFail(st *State) {
	fr := st.top()
	ex.Stat.UnwindFails++
	st.Oblig = append(st.Oblig, Obligation{ID: "unwind:" + fr.Fn.Name(), Kind: "unwind", Cond: st.pcTerm(ex.st),
		Site: fmt.Sprintf("%s block %d", fr.Fn.String(), fr.Block.Index)})
	st.Dead = true
	st.Reason = "unwind"
}

// feasibleBoth decides which sides of a branch are satisfiable under the
// path condition. Unknown counts as feasible.
func (ex *Exec) feasibleBoth(st *State, cond *smt.Term) (bool, bool) {
	r1 := ex.check(append(append([]*smt.Term(nil), st.PC...), cond))
	if r1 == smt.Unsat {
		return false, true
	}
	r2 := ex.check(append(append([]*smt.Term(nil), st.PC...), ex.st.Not(cond)))
	if r2 == smt.Unsat {
		return true, false
	}
	return true, true
}

func (ex *Exec) check(assertions []*smt.Term) smt.Result {
	r, _ := ex.Solver.Check(assertions, nil)
	return r
}

func (ex *Exec) feasible(st *State, extra *smt.Term) bool {
	if extra.IsFalse() {
		return false
	}
	r := ex.check(append(append([]*smt.Term(nil), st.PC...), extra))
	return r != smt.Unsat
}

// stepLocal is step, with an unsupported construct confined to the path that
// met it once the execution has forked: that path ends (infeasible paths
// silently, feasible ones with a note that makes the job inconclusive) and
// the other paths are still explored and discharged.
func (ex *Exec) stepLocal(st *State) (req *forkReq) {
	if !st.Forked {
		return ex.step(st)
	}
	defer func() {
		if r := recover(); r != nil {
			u, ok := r.(*Unsupported)
			if !ok {
				panic(r)
			}
			req = nil
			st.Dead = true
			st.Reason = u.Error()
			if ex.feasible(st, ex.st.True) {
				ex.UnsupportedPaths = append(ex.UnsupportedPaths, u.Error())
			}
		}
	}()
	return ex.step(st)
}

// ipdom returns the immediate post-dominator of block b (nil: function exit).
func (ex *Exec) ipdom(fn *ssa.Function, b *ssa.BasicBlock) *ssa.BasicBlock {
	pd, ok := ex.pdom[fn]
	if !ok {
		pd = computeIPDom(fn)
		ex.pdom[fn] = pd
	}
	return pd[b.Index]
}

// computeIPDom: iterative dataflow on the reverse CFG with a virtual exit.
func computeIPDom(fn *ssa.Function) []*ssa.BasicBlock {
	n := len(fn.Blocks)
	exit := n
	// post-dominator sets as bitsets (functions are small)
	words := (n + 1 + 63) / 64
	full := make([]uint64, words)
	for i := 0; i <= n; i++ {
		full[i/64] |= 1 << uint(i%64)
	}
	pdom := make([][]uint64, n+1)
	for i := 0; i <= n; i++ {
		pdom[i] = append([]uint64(nil), full...)
	}
	pdom[exit] = make([]uint64, words)
	pdom[exit][exit/64] |= 1 << uint(exit%64)
	succs := func(b *ssa.BasicBlock) []int {
		if len(b.Succs) == 0 {
			return []int{exit}
		}
		var out []int
		for _, s := range b.Succs {
			out = append(out, s.Index)
		}
		return out
	}
	changed := true
	for changed {
		changed = false
		for i := n - 1; i >= 0; i-- {
			b := fn.Blocks[i]
			nw := append([]uint64(nil), full...)
			for _, s := range succs(b) {
				for w := range nw {
					nw[w] &= pdom[s][w]
				}
			}
			nw[i/64] |= 1 << uint(i%64)
			for w := range nw {
				if nw[w] != pdom[i][w] {
					changed = true
				}
			}
			pdom[i] = nw
		}
	}
	has := func(set []uint64, i int) bool { return set[i/64]&(1<<uint(i%64)) != 0 }
	count := func(set []uint64) int {
		c := 0
		for i := 0; i <= n; i++ {
			if has(set, i) {
				c++
			}
		}
		return c
	}
	res := make([]*ssa.BasicBlock, n)
	for i := 0; i < n; i++ {
		// immediate post-dominator: the strict post-dominator whose own
		// post-dominator set is the largest
		best, bestc := -1, -1
		for j := 0; j <= n; j++ {
			if j == i || !has(pdom[i], j) {
				continue
			}
			c := count(pdom[j])
			if c > bestc {
				best, bestc = j, c
			}
		}
		if best >= 0 && best != exit {
			res[i] = fn.Blocks[best]
		}
	}
	return res
}

func (ex *Exec) constValue(c *ssa.Const) Value {
	t := c.Type()
	if c.Value == nil {
		return ex.zero(t)
	}
	switch u := t.Underlying().(type) {
	case *types.Basic:
		if u.Info()&types.IsString != 0 {
			return concStr(constant.StringVal(c.Value))
		}
		if u.Info()&types.IsBoolean != 0 {
			return ex.st.Bool(constant.BoolVal(c.Value))
		}
		if u.Info()&types.IsInteger != 0 {
			w := widthOf(t)
			if isSigned(t) {
				return ex.st.BV(uint64(c.Int64()), w)
			}
			return ex.st.BV(c.Uint64(), w)
		}
	}
	panic(unsupported("constant of type " + t.String()))
}

func (ex *Exec) eval(s *State, fr *Frame, v ssa.Value) Value {
	switch x := v.(type) {
	case *ssa.Const:
		return ex.constValue(x)
	case *ssa.Function:
		return &FuncV{Fn: x}
	case *ssa.Global:
		return ex.globalPtr(s, x)
	case *ssa.FreeVar:
		for i, fv := range fr.Fn.FreeVars {
			if fv == x {
				return fr.FreeVars[i]
			}
		}
		panic("free var not found")
	case *ssa.Builtin:
		return &FuncV{Builtin: x.Name()}
	}
	val, ok := fr.Env[v]
	if !ok {
		panic(fmt.Sprintf("value %s (%T) not in environment of %s", v.Name(), v, fr.Fn.Name()))
	}
	return val
}

// globals are allocated lazily with their zero value; package initialisers
// are not run, so only globals with static composite initialisers that the
// harnesses need are modelled (see initGlobal).
func (ex *Exec) globalPtr(s *State, g *ssa.Global) *Ptr {
	key := -1000000 - ex.globalIndex(g)
	if _, ok := s.Heap[key]; !ok {
		s.Heap[key] = ex.initGlobal(s, g)
	}
	return &Ptr{Obj: key}
}

func (ex *Exec) globalIndex(g *ssa.Global) int {
	if ex.globalIdx == nil {
		ex.globalIdx = map[*ssa.Global]int{}
	}
	if i, ok := ex.globalIdx[g]; ok {
		return i
	}
	ex.globalIdx[g] = len(ex.globalIdx) + 1
	return ex.globalIdx[g]
}

func (ex *Exec) initGlobal(s *State, g *ssa.Global) Value {
	t := g.Type().(*types.Pointer).Elem()
	return ex.zero(t)
}

func (ex *Exec) fail(st *State, kind, id string, cond *smt.Term, site string) {
	st.Oblig = append(st.Oblig, Obligation{ID: id, Kind: kind, Cond: ex.st.And(append(append([]*smt.Term(nil), st.PC...), cond)...), Site: site})
}

func site(in ssa.Instruction) string {
	fn := in.Parent()
	pos := in.Pos()
	if pos == token.NoPos {
		// use the position of the nearest instruction with one
		for _, x := range in.Block().Instrs {
			if x.Pos() != token.NoPos {
				pos = x.Pos()
				if x == in {
					break
				}
			}
		}
	}
	p := fn.Prog.Fset.Position(pos)
	f := p.Filename
	if i := strings.LastIndex(f, "/"); i >= 0 {
		f = f[i+1:]
	}
	return fmt.Sprintf("%s (%s:%d)", fn.String(), f, p.Line)
}

// mayPanic records a deferred run-time-panic obligation and continues under
// the assumption that the panic did not happen. If the panic is certain the
// path dies.
func (ex *Exec) mayPanic(st *State, in ssa.Instruction, kind string, bad *smt.Term) bool {
	if bad.IsFalse() {
		return false
	}
	fn := in.Parent()
	id := "panic:" + kind + "@" + fn.String()
	ex.fail(st, "panic", id, bad, site(in))
	if bad.IsTrue() {
		st.Dead = true
		st.Reason = "panic: " + kind + " at " + site(in)
		return true
	}
	st.addPC(ex.st.Not(bad))
	return false
}

func (ex *Exec) asTerm(v Value) *smt.Term {
	t, ok := v.(*smt.Term)
	if !ok {
		panic(unsupported(fmt.Sprintf("expected scalar, got %s", valString(v))))
	}
	return t
}

func (ex *Exec) constInt(v Value) (int, bool) {
	t, ok := v.(*smt.Term)
	if !ok || !t.IsConst() {
		return 0, false
	}
	return int(int64(t.Val)), true
}

// load reads through a pointer.
func (ex *Exec) load(st *State, p *Ptr) Value {
	v, ok := st.Heap[p.Obj]
	if !ok {
		panic(fmt.Sprintf("load from unknown object %d", p.Obj))
	}
	return ex.navLoad(v, p.Path)
}

func (ex *Exec) navLoad(v Value, path []PathElem) Value {
	for i, pe := range path {
		if pe.Field >= 0 {
			v = v.(*StructV).Fields[pe.Field]
			continue
		}
		arr := v.(*ArrayV)
		if pe.Index.IsConst() {
			idx := int(pe.Index.Val)
			if idx < 0 || idx >= len(arr.Elems) {
				// out of range after a (deferred) bounds obligation: value is irrelevant
				if len(arr.Elems) == 0 {
					panic(unsupported("load from empty array"))
				}
				idx = 0
			}
			v = arr.Elems[idx]
			continue
		}
		// symbolic index: ite chain over elements of the remainder
		rest := path[i+1:]
		n := len(arr.Elems)
		if n == 0 {
			panic(unsupported("symbolic index into empty array"))
		}
		if mp, ok := ex.st.ModProvOf(pe.Index); ok && mp.M == uint64(n) {
			// index = (base + off) mod n: select by the canonical residue of
			// base, so that equal relative accesses give equal terms whatever
			// the constant offset is
			xm := ex.st.URem(mp.Base, ex.st.BV(mp.M, 64))
			jof := func(d int) int { return int((uint64(d) + mp.Off) % mp.M) }
			res := ex.specialize(ex.st.Eq(xm, ex.st.BV(uint64(n-1), 64)), ex.navLoad(arr.Elems[jof(n-1)], rest))
			for d := n - 2; d >= 0; d-- {
				e := ex.navLoad(arr.Elems[jof(d)], rest)
				m, ok := ex.mergeVal(ex.st.Eq(xm, ex.st.BV(uint64(d), 64)), e, res)
				if !ok {
					panic(unsupported("symbolic index over unmergeable elements: " + valString(e) + " / " + valString(res)))
				}
				res = m
			}
			return res
		}
		// the index is in range (bounds obligation recorded at IndexAddr), so
		// the last element is read under the knowledge index == n-1
		res := ex.specialize(ex.st.Eq(pe.Index, ex.st.BV(uint64(n-1), 64)), ex.navLoad(arr.Elems[n-1], rest))
		for k := n - 2; k >= 0; k-- {
			e := ex.navLoad(arr.Elems[k], rest)
			m, ok := ex.mergeVal(ex.st.Eq(pe.Index, ex.st.BV(uint64(k), 64)), e, res)
			if !ok {
				panic(unsupported("symbolic index over unmergeable elements: " + valString(e) + " / " + valString(res)))
			}
			res = m
		}
		return res
	}
	return v
}

// specialize simplifies v under the assumption that c holds (only the
// top-level ite spine of each scalar is inspected).
func (ex *Exec) specialize(c *smt.Term, v Value) Value {
	switch x := v.(type) {
	case *smt.Term:
		for x.Op == smt.OpIte && x.Args[0] == c {
			x = x.Args[1]
		}
		return x
	case *StructV:
		var out []Value
		for i, f := range x.Fields {
			nf := ex.specialize(c, f)
			if nf != f {
				if out == nil {
					out = append([]Value(nil), x.Fields...)
				}
				out[i] = nf
			}
		}
		if out == nil {
			return x
		}
		return &StructV{out}
	}
	return v
}

func (ex *Exec) store(st *State, p *Ptr, val Value) {
	if p.Obj < 0 && !ex.inInit {
		// a write to a package-level variable after initialisation: state
		// shared between all jobs of the process
		name := "?"
		for g, i := range ex.globalIdx {
			if -1000000-i == p.Obj {
				name = g.Name()
			}
		}
		st.SharedWrites = append(st.SharedWrites, name)
	}
	ex.noteInitObjWrite(st, p.Obj)
	v, ok := st.Heap[p.Obj]
	if !ok {
		panic(fmt.Sprintf("store to unknown object %d", p.Obj))
	}
	st.Heap[p.Obj] = ex.navStore(v, p.Path, val)
}

// noteInitObjWrite records a write, after initialisation, to an object that
// package initialisation allocated (a table or map behind a package-level
// variable): state shared between all jobs of the process.
func (ex *Exec) noteInitObjWrite(st *State, obj int) {
	if obj > 0 && obj <= ex.initObjMax && !ex.inInit {
		st.SharedWrites = append(st.SharedWrites, fmt.Sprintf("object #%d allocated by package initialisation", obj))
	}
}

func (ex *Exec) navStore(v Value, path []PathElem, val Value) Value {
	if len(path) == 0 {
		return val
	}
	pe := path[0]
	if pe.Field >= 0 {
		s := v.(*StructV)
		nf := append([]Value(nil), s.Fields...)
		nf[pe.Field] = ex.navStore(s.Fields[pe.Field], path[1:], val)
		return &StructV{nf}
	}
	arr := v.(*ArrayV)
	ne := append([]Value(nil), arr.Elems...)
	if pe.Index.IsConst() {
		idx := int(pe.Index.Val)
		if idx < 0 || idx >= len(ne) {
			return arr
		}
		ne[idx] = ex.navStore(arr.Elems[idx], path[1:], val)
		return &ArrayV{ne}
	}
	var xm *smt.Term
	var mp smt.ModProv
	if p, ok := ex.st.ModProvOf(pe.Index); ok && p.M == uint64(len(ne)) {
		mp = p
		xm = ex.st.URem(mp.Base, ex.st.BV(mp.M, 64))
	}
	for k := range ne {
		upd := ex.navStore(arr.Elems[k], path[1:], val)
		cond := ex.st.Eq(pe.Index, ex.st.BV(uint64(k), 64))
		if xm != nil {
			d := (uint64(k) + mp.M - mp.Off) % mp.M
			cond = ex.st.Eq(xm, ex.st.BV(d, 64))
		}
		m, ok := ex.mergeVal(cond, upd, arr.Elems[k])
		if !ok {
			panic(unsupported("symbolic store over unmergeable elements"))
		}
		ne[k] = m
	}
	return &ArrayV{ne}
}

func (ex *Exec) sliceElems(st *State, s *SliceV) []Value {
	if s.Len == 0 {
		return nil
	}
	arr := st.Heap[s.Obj].(*ArrayV)
	return arr.Elems[s.Off : s.Off+s.Len]
}

func (ex *Exec) newSlice(st *State, elems []Value, capacity int, zero Value) *SliceV {
	if capacity < len(elems) {
		capacity = len(elems)
	}
	back := make([]Value, capacity)
	copy(back, elems)
	for i := len(elems); i < capacity; i++ {
		back[i] = zero
	}
	obj := ex.newObj(st, &ArrayV{back})
	return &SliceV{Obj: obj, Off: 0, Len: len(elems), Cap: capacity}
}

// step executes one instruction of the current goroutine.
func (ex *Exec) step(st *State) *forkReq {
	st.Steps++
	ex.Stat.Steps++
	if ex.Stat.Steps > ex.MaxSteps {
		panic(unsupported("step budget exceeded"))
	}
	g := st.Gs[st.Cur]
	if g.Status != GRunnable {
		ex.schedule(st)
		return nil
	}
	fr := st.top()
	in := fr.Block.Instrs[fr.IP]
	if ex.Debug {
		fmt.Printf("[g%d d%d] %s: %s\n", st.Cur, st.depth(), fr.Fn.Name(), in.String())
	}
	switch x := in.(type) {
	case *ssa.DebugRef:
		fr.IP++
	case *ssa.Alloc:
		obj := ex.newObj(st, ex.zero(x.Type().(*types.Pointer).Elem()))
		fr.Env[x] = &Ptr{Obj: obj}
		fr.IP++
	case *ssa.BinOp:
		fr.Env[x] = ex.binop(st, x, ex.eval(st, fr, x.X), ex.eval(st, fr, x.Y))
		fr.IP++
	case *ssa.UnOp:
		return ex.unop(st, fr, x)
	case *ssa.Call:
		return ex.call(st, fr, x, &x.Call)
	case *ssa.ChangeInterface:
		fr.Env[x] = ex.eval(st, fr, x.X)
		fr.IP++
	case *ssa.ChangeType:
		fr.Env[x] = ex.eval(st, fr, x.X)
		fr.IP++
	case *ssa.Convert:
		fr.Env[x] = ex.convert(st, x, ex.eval(st, fr, x.X))
		fr.IP++
	case *ssa.Extract:
		fr.Env[x] = ex.eval(st, fr, x.Tuple).(*TupleV).Elems[x.Index]
		fr.IP++
	case *ssa.Field:
		fr.Env[x] = ex.eval(st, fr, x.X).(*StructV).Fields[x.Field]
		fr.IP++
	case *ssa.FieldAddr:
		p := ex.eval(st, fr, x.X).(*Ptr)
		if p.IsNil() {
			ex.mayPanic(st, x, "nil dereference", ex.st.True)
			return nil
		}
		np := &Ptr{Obj: p.Obj, Path: append(append([]PathElem(nil), p.Path...), PathElem{Field: x.Field})}
		fr.Env[x] = np
		fr.IP++
	case *ssa.Index:
		ex.index(st, fr, x)
	case *ssa.IndexAddr:
		return ex.indexAddr(st, fr, x)
	case *ssa.Lookup:
		return ex.lookup(st, fr, x)
	case *ssa.MakeChan:
		obj := ex.newObj(st, &ChanContent{})
		if sz, ok := ex.constInt(ex.eval(st, fr, x.Size)); !ok || sz != 0 {
			panic(unsupported("buffered channel"))
		}
		fr.Env[x] = &ChanV{Obj: obj}
		fr.IP++
	case *ssa.MakeClosure:
		fn := x.Fn.(*ssa.Function)
		b := make([]Value, len(x.Bindings))
		for i, bv := range x.Bindings {
			b[i] = ex.eval(st, fr, bv)
		}
		fr.Env[x] = &FuncV{Fn: fn, Bindings: b}
		fr.IP++
	case *ssa.MakeInterface:
		fr.Env[x] = &IfaceV{Typ: x.X.Type(), Val: ex.eval(st, fr, x.X)}
		fr.IP++
	case *ssa.MakeMap:
		obj := ex.newObj(st, &MapContent{})
		fr.Env[x] = &MapV{Obj: obj}
		fr.IP++
	case *ssa.MakeSlice:
		n, ok1 := ex.constInt(ex.eval(st, fr, x.Len))
		c, ok2 := ex.constInt(ex.eval(st, fr, x.Cap))
		if (!ok1 || !ok2) && x.Len == x.Cap {
			// a symbolic length with a small known range: one path per value
			lt := ex.asTerm(ex.eval(st, fr, x.Len))
			if _, hi := ex.st.Interval(lt); hi <= 32 {
				et := x.Type().Underlying().(*types.Slice).Elem()
				conds := make([]*smt.Term, hi+1)
				for k := uint64(0); k <= hi; k++ {
					conds[k] = ex.st.Eq(lt, ex.st.BV(k, lt.W))
				}
				return ex.splitConds(st, fr, x, conds, func(ch *State, i int) {
					if i < 0 {
						ch.Dead = true
						ch.Reason = "length outside its interval"
						return
					}
					z := ex.zero(et)
					elems := make([]Value, i)
					for k := range elems {
						elems[k] = z
					}
					cf := ch.top()
					cf.Env[x] = ex.newSlice(ch, elems, i, z)
					cf.IP++
				})
			}
		}
		if !ok1 || !ok2 {
			panic(unsupported("make([]T, n) with symbolic length at " + site(x)))
		}
		if n < 0 || c < n || c > 1<<20 {
			ex.mayPanic(st, x, "makeslice: len out of range", ex.st.True)
			return nil
		}
		et := x.Type().Underlying().(*types.Slice).Elem()
		z := ex.zero(et)
		elems := make([]Value, n)
		for i := range elems {
			elems[i] = z
		}
		fr.Env[x] = ex.newSlice(st, elems, c, z)
		fr.IP++
	case *ssa.MapUpdate:
		return ex.mapUpdate(st, fr, x)
	case *ssa.Range:
		ex.rangeInit(st, fr, x)
	case *ssa.Next:
		ex.next(st, fr, x)
	case *ssa.Phi:
		panic("phi executed out of order")
	case *ssa.Slice:
		ex.sliceOp(st, fr, x)
	case *ssa.Store:
		p := ex.eval(st, fr, x.Addr).(*Ptr)
		if p.IsNil() {
			ex.mayPanic(st, x, "nil dereference", ex.st.True)
			return nil
		}
		ex.store(st, p, ex.eval(st, fr, x.Val))
		fr.IP++
	case *ssa.TypeAssert:
		ex.typeAssert(st, fr, x)
	case *ssa.If:
		c := ex.asTerm(ex.eval(st, fr, x.Cond))
		if c.IsTrue() {
			ex.enterBlock(st, fr, fr.Block, fr.Block.Succs[0])
			if ex.unwindExceeded(st) {
				ex.unwindFail(st)
			}
		} else if c.IsFalse() {
			ex.enterBlock(st, fr, fr.Block, fr.Block.Succs[1])
			if ex.unwindExceeded(st) {
				ex.unwindFail(st)
			}
		} else {
			return &forkReq{isIf: true, cond: c}
		}
	case *ssa.Jump:
		ex.enterBlock(st, fr, fr.Block, fr.Block.Succs[0])
		if ex.unwindExceeded(st) {
			ex.unwindFail(st)
		}
	case *ssa.Return:
		var res Value
		switch len(x.Results) {
		case 0:
		case 1:
			res = ex.eval(st, fr, x.Results[0])
		default:
			e := make([]Value, len(x.Results))
			for i, r := range x.Results {
				e[i] = ex.eval(st, fr, r)
			}
			res = &TupleV{e}
		}
		ex.ret(st, res)
	case *ssa.Panic:
		ex.mayPanic(st, x, "explicit panic", ex.st.True)
	case *ssa.Go:
		ex.goStmt(st, fr, x)
	case *ssa.Send:
		ex.send(st, fr, x)
	case *ssa.Defer:
		fv, args := ex.resolveCallee(st, fr, &x.Call)
		fr.Defers = append(fr.Defers, &deferred{fn: fv, args: args})
		fr.IP++
	case *ssa.RunDefers:
		if len(fr.Defers) == 0 {
			fr.IP++
			return nil
		}
		d := fr.Defers[len(fr.Defers)-1]
		fr.Defers = fr.Defers[:len(fr.Defers)-1]
		// stay on RunDefers until all deferred calls ran
		return ex.invoke(st, fr, nil, d.fn, d.args, x)
	default:
		panic(unsupported(fmt.Sprintf("instruction %T at %s", in, site(in))))
	}
	return nil
}

func (ex *Exec) ret(st *State, res Value) {
	g := st.Gs[st.Cur]
	fr := g.Stack[len(g.Stack)-1]
	g.Stack = g.Stack[:len(g.Stack)-1]
	if len(g.Stack) == 0 {
		g.Status = GDone
		// when the harness entry returns, goroutines that can still run are
		// run to completion (or until they block) before leaks are judged
		ex.schedule(st)
		return
	}
	caller := g.Stack[len(g.Stack)-1]
	if fr.Call != nil {
		caller.Env[fr.Call] = res
	}
}

// finish runs end-of-harness checks: goroutines still alive are leaks.
func (ex *Exec) finish(st *State) {
	for i, g := range st.Gs {
		if i == 0 || g.Status == GDone {
			continue
		}
		where := "?"
		if len(g.Stack) > 0 {
			f := g.Stack[len(g.Stack)-1]
			where = site(f.Block.Instrs[f.IP])
		}
		ex.fail(st, "leak", "goroutine-leak", ex.st.True, fmt.Sprintf("goroutine %s still parked at %s", g.Name, where))
	}
}

func (ex *Exec) binop(st *State, x *ssa.BinOp, a, b Value) Value {
	s := ex.st
	switch av := a.(type) {
	case *smt.Term:
		bv := b.(*smt.Term)
		if av.W == 0 {
			switch x.Op {
			case token.EQL:
				return s.Eq(av, bv)
			case token.NEQ:
				return s.Ne(av, bv)
			case token.AND:
				return s.And(av, bv)
			case token.OR:
				return s.Or(av, bv)
			}
			panic(unsupported("bool binop " + x.Op.String()))
		}
		signed := isSigned(x.X.Type())
		switch x.Op {
		case token.ADD:
			return s.Add(av, bv)
		case token.SUB:
			return s.Sub(av, bv)
		case token.MUL:
			if st.AbstractArith && !av.IsConst() && !bv.IsConst() {
				// commutative: order arguments canonically
				if av.ID > bv.ID {
					av, bv = bv, av
				}
				return s.UF(fmt.Sprintf("absmul%d", av.W), av.W, av, bv)
			}
			return s.Mul(av, bv)
		case token.QUO, token.REM:
			bad := s.Eq(bv, s.BV(0, bv.W))
			if ex.mayPanic(st, x, "integer divide by zero", bad) {
				return s.BV(0, av.W)
			}
			abstract := st.AbstractArith && !bv.IsConst()
			if st.AbstractArith && bv.IsConst() && x.Op == token.REM && !signed {
				// remainder by a constant: exact (compare-and-subtract) when the
				// dividend is known to be small, abstract when it is unbounded
				if ub, ok := s.UpperBound(av); !ok || ub >= 3*bv.Val {
					abstract = true
				}
			}
			if abstract {
				name := "absdiv"
				if x.Op == token.REM {
					name = "absrem"
				}
				if signed {
					name += "s"
				}
				return s.UF(fmt.Sprintf("%s%d", name, av.W), av.W, av, bv)
			}
			if x.Op == token.QUO {
				if signed {
					return s.Bin(smt.OpSDiv, av, bv)
				}
				return s.Bin(smt.OpUDiv, av, bv)
			}
			if signed {
				return s.Bin(smt.OpSRem, av, bv)
			}
			return s.Bin(smt.OpURem, av, bv)
		case token.AND:
			return s.Bin(smt.OpBAnd, av, bv)
		case token.OR:
			return s.Bin(smt.OpBOr, av, bv)
		case token.XOR:
			return s.Bin(smt.OpBXor, av, bv)
		case token.AND_NOT:
			return s.Bin(smt.OpBAnd, av, s.BNot(bv))
		case token.SHL, token.SHR:
			// shift count: any integer type; negative signed count panics
			cnt := bv
			if isSigned(x.Y.Type()) {
				ex.mayPanic(st, x, "negative shift amount", s.SLt(cnt, s.BV(0, cnt.W)))
			}
			c := s.Resize(cnt, 64, false)
			if cnt.W > av.W {
				// counts beyond the width shift everything out
			}
			big := s.Cmp(smt.OpULe, s.BV(uint64(av.W), 64), c)
			cw := s.Resize(c, av.W, false)
			if av.W > 64 {
				panic("width")
			}
			var sh *smt.Term
			if x.Op == token.SHL {
				sh = s.Ite(big, s.BV(0, av.W), s.Bin(smt.OpShl, av, cw))
			} else if signed {
				sh = s.Ite(big, s.Bin(smt.OpAShr, av, s.BV(uint64(av.W-1), av.W)), s.Bin(smt.OpAShr, av, cw))
			} else {
				sh = s.Ite(big, s.BV(0, av.W), s.Bin(smt.OpLShr, av, cw))
			}
			return sh
		case token.EQL:
			return s.Eq(av, bv)
		case token.NEQ:
			return s.Ne(av, bv)
		case token.LSS:
			if signed {
				return s.SLt(av, bv)
			}
			return s.ULt(av, bv)
		case token.LEQ:
			if signed {
				return s.SLe(av, bv)
			}
			return s.ULe(av, bv)
		case token.GTR:
			if signed {
				return s.SLt(bv, av)
			}
			return s.ULt(bv, av)
		case token.GEQ:
			if signed {
				return s.SLe(bv, av)
			}
			return s.ULe(bv, av)
		}
		panic(unsupported("int binop " + x.Op.String()))
	case *StrV:
		bv := b.(*StrV)
		switch x.Op {
		case token.ADD:
			return ex.strConcat(av, bv)
		case token.EQL:
			return ex.strEq(av, bv)
		case token.NEQ:
			return s.Not(ex.strEq(av, bv))
		}
		panic(unsupported("string binop " + x.Op.String()))
	case *Ptr:
		bv := b.(*Ptr)
		eq := ex.ptrEq(av, bv)
		if x.Op == token.EQL {
			return eq
		}
		return s.Not(eq)
	case *IfaceV:
		bv := b.(*IfaceV)
		eq := ex.ifaceEq(av, bv)
		if x.Op == token.EQL {
			return eq
		}
		return s.Not(eq)
	case *SliceV, *MapV, *FuncV, *ChanV:
		// only comparison with nil is legal
		isNil := ex.isNilValue(a) && ex.isNilValue(b)
		if x.Op == token.EQL {
			return s.Bool(isNil)
		}
		return s.Bool(!isNil)
	case *StructV:
		eq := ex.deepEq(a, b)
		if x.Op == token.EQL {
			return eq
		}
		return s.Not(eq)
	}
	panic(unsupported(fmt.Sprintf("binop %s on %T", x.Op, a)))
}

func (ex *Exec) isNilValue(v Value) bool {
	switch x := v.(type) {
	case *SliceV:
		return x.Obj == 0
	case *MapV:
		return x.Obj == 0
	case *FuncV:
		return x.Fn == nil && x.Builtin == ""
	case *ChanV:
		return x.Obj == 0
	case *Ptr:
		return x.Obj == 0
	case *IfaceV:
		return x.Typ == nil
	}
	return false
}

func (ex *Exec) ptrEq(a, b *Ptr) *smt.Term {
	s := ex.st
	if a.Obj != b.Obj || len(a.Path) != len(b.Path) {
		return s.False
	}
	conj := []*smt.Term{}
	for i := range a.Path {
		if a.Path[i].Field != b.Path[i].Field {
			return s.False
		}
		if a.Path[i].Field == -1 {
			conj = append(conj, s.Eq(a.Path[i].Index, b.Path[i].Index))
		}
	}
	return s.And(conj...)
}

func (ex *Exec) ifaceEq(a, b *IfaceV) *smt.Term {
	s := ex.st
	if a.Typ == nil || b.Typ == nil {
		return s.Bool(a.Typ == nil && b.Typ == nil)
	}
	if !types.Identical(a.Typ, b.Typ) {
		return s.False
	}
	return ex.deepEq(a.Val, b.Val)
}

func (ex *Exec) deepEq(a, b Value) *smt.Term {
	s := ex.st
	switch x := a.(type) {
	case *smt.Term:
		return s.Eq(x, b.(*smt.Term))
	case *StrV:
		return ex.strEq(x, b.(*StrV))
	case *StructV:
		y := b.(*StructV)
		var conj []*smt.Term
		for i := range x.Fields {
			conj = append(conj, ex.deepEq(x.Fields[i], y.Fields[i]))
		}
		return s.And(conj...)
	case *ArrayV:
		y := b.(*ArrayV)
		var conj []*smt.Term
		for i := range x.Elems {
			conj = append(conj, ex.deepEq(x.Elems[i], y.Elems[i]))
		}
		return s.And(conj...)
	case *Ptr:
		return ex.ptrEq(x, b.(*Ptr))
	case *IfaceV:
		return ex.ifaceEq(x, b.(*IfaceV))
	case *OpaqueErr:
		return s.Bool(a == b)
	}
	panic(unsupported(fmt.Sprintf("equality on %T", a)))
}

func (ex *Exec) unop(st *State, fr *Frame, x *ssa.UnOp) *forkReq {
	s := ex.st
	v := ex.eval(st, fr, x.X)
	switch x.Op {
	case token.NOT:
		fr.Env[x] = s.Not(v.(*smt.Term))
	case token.SUB:
		fr.Env[x] = s.Neg(v.(*smt.Term))
	case token.XOR:
		fr.Env[x] = s.BNot(v.(*smt.Term))
	case token.MUL:
		p := v.(*Ptr)
		if p.IsNil() {
			ex.mayPanic(st, x, "nil dereference", s.True)
			return nil
		}
		fr.Env[x] = ex.load(st, p)
	case token.ARROW:
		return ex.recv(st, fr, x)
	default:
		panic(unsupported("unop " + x.Op.String()))
	}
	fr.IP++
	return nil
}

func (ex *Exec) convert(st *State, x *ssa.Convert, v Value) Value {
	from, to := x.X.Type(), x.Type()
	s := ex.st
	if t, ok := v.(*smt.Term); ok {
		if isString(to) {
			// string(rune)
			r := s.Resize(t, 32, isSigned(from))
			return ex.normStr([]StrAlt{{P: []Piece{{Rune: r}}}})
		}
		w := widthOf(to)
		if w <= 0 {
			panic(unsupported("convert int to " + to.String()))
		}
		return s.Resize(t, w, isSigned(from))
	}
	if sv, ok := v.(*SliceV); ok && isString(to) {
		// string([]rune) / string([]byte)
		et := from.Underlying().(*types.Slice).Elem()
		elems := ex.sliceElems(st, sv)
		var ps []Piece
		if widthOf(et) == 32 {
			for _, e := range elems {
				ps = append(ps, Piece{Rune: e.(*smt.Term)})
			}
			return ex.normStr([]StrAlt{{P: ps}})
		}
		var bs []byte
		for _, e := range elems {
			t := e.(*smt.Term)
			if !t.IsConst() {
				panic(unsupported("string([]byte) with symbolic bytes"))
			}
			bs = append(bs, byte(t.Val))
		}
		return concStr(string(bs))
	}
	if sv, ok := v.(*StrV); ok {
		if isString(to) {
			return sv
		}
		if sl, ok := to.Underlying().(*types.Slice); ok {
			c, okc := sv.Concrete()
			if !okc {
				panic(unsupported("[]T(string) on symbolic string"))
			}
			var elems []Value
			if widthOf(sl.Elem()) == 8 {
				for i := 0; i < len(c); i++ {
					elems = append(elems, s.BV(uint64(c[i]), 8))
				}
				return ex.newSlice(st, elems, len(elems), s.BV(0, 8))
			}
			for _, r := range c {
				elems = append(elems, s.BV(uint64(uint32(r)), 32))
			}
			return ex.newSlice(st, elems, len(elems), s.BV(0, 32))
		}
	}
	if p, ok := v.(*Ptr); ok {
		return p
	}
	panic(unsupported(fmt.Sprintf("convert %s to %s", from, to)))
}

func (ex *Exec) index(st *State, fr *Frame, x *ssa.Index) {
	v := ex.eval(st, fr, x.X)
	idx := ex.asTerm(ex.eval(st, fr, x.Index))
	idx = ex.st.Resize(idx, 64, isSigned(x.Index.Type()))
	switch c := v.(type) {
	case *ArrayV:
		n := len(c.Elems)
		if ex.mayPanic(st, x, "index out of range", ex.st.Not(ex.st.ULt(idx, ex.st.BV(uint64(n), 64)))) {
			return
		}
		fr.Env[x] = ex.navLoad(c, []PathElem{{Field: -1, Index: idx}})
	case *StrV:
		res, dead := ex.strIndex(st, x, c, ex.eval(st, fr, x.Index))
		if dead {
			return
		}
		fr.Env[x] = res
	default:
		panic(unsupported(fmt.Sprintf("Index on %T", v)))
	}
	fr.IP++
}

// unmergeableElem reports whether values of this type cannot be joined by
// ite (pointers, interfaces, slices, maps, functions, channels).
func unmergeableElem(t types.Type) bool {
	switch t.Underlying().(type) {
	case *types.Pointer, *types.Interface, *types.Slice, *types.Map, *types.Signature, *types.Chan:
		return true
	}
	return false
}

func (ex *Exec) indexAddr(st *State, fr *Frame, x *ssa.IndexAddr) *forkReq {
	v := ex.eval(st, fr, x.X)
	idx := ex.asTerm(ex.eval(st, fr, x.Index))
	idx = ex.st.Resize(idx, 64, isSigned(x.Index.Type()))
	s := ex.st
	switch c := v.(type) {
	case *SliceV:
		if ex.mayPanic(st, x, "index out of range", s.Not(s.ULt(idx, s.BV(uint64(c.Len), 64)))) {
			return nil
		}
		if !idx.IsConst() && c.Len > 0 && unmergeableElem(x.X.Type().Underlying().(*types.Slice).Elem()) {
			// elements that cannot be joined: one path per index value
			conds := make([]*smt.Term, c.Len)
			for k := 0; k < c.Len; k++ {
				conds[k] = s.Eq(idx, s.BV(uint64(k), 64))
			}
			return ex.splitConds(st, fr, x, conds, func(ch *State, i int) {
				if i < 0 {
					ch.Dead = true
					ch.Reason = "index outside the slice (excluded by the bounds obligation)"
					return
				}
				cf := ch.top()
				cf.Env[x] = &Ptr{Obj: c.Obj, Path: []PathElem{{Field: -1, Index: s.BV(uint64(c.Off+i), 64)}}}
				cf.IP++
			})
		}
		fr.Env[x] = &Ptr{Obj: c.Obj, Path: []PathElem{{Field: -1, Index: s.Add(idx, s.BV(uint64(c.Off), 64))}}}
	case *Ptr:
		if c.IsNil() {
			ex.mayPanic(st, x, "nil dereference", s.True)
			return nil
		}
		n := int(x.X.Type().Underlying().(*types.Pointer).Elem().Underlying().(*types.Array).Len())
		if ex.mayPanic(st, x, "index out of range", s.Not(s.ULt(idx, s.BV(uint64(n), 64)))) {
			return nil
		}
		fr.Env[x] = &Ptr{Obj: c.Obj, Path: append(append([]PathElem(nil), c.Path...), PathElem{Field: -1, Index: idx})}
	default:
		panic(unsupported(fmt.Sprintf("IndexAddr on %T", v)))
	}
	fr.IP++
	return nil
}

func (ex *Exec) sliceOp(st *State, fr *Frame, x *ssa.Slice) {
	v := ex.eval(st, fr, x.X)
	s := ex.st
	get := func(val ssa.Value, def int) (int, bool) {
		if val == nil {
			return def, true
		}
		return ex.constInt(ex.eval(st, fr, val))
	}
	switch c := v.(type) {
	case *SliceV:
		lo, ok1 := get(x.Low, 0)
		hi, ok2 := get(x.High, c.Len)
		mx, ok3 := get(x.Max, c.Cap)
		if !ok1 || !ok2 || !ok3 {
			panic(unsupported("slice expression with symbolic bounds at " + site(x)))
		}
		if lo < 0 || hi < lo || hi > c.Cap || mx > c.Cap || hi > mx {
			ex.mayPanic(st, x, "slice bounds out of range", s.True)
			return
		}
		obj := c.Obj
		if obj == 0 && hi == 0 {
			fr.Env[x] = &SliceV{}
		} else {
			fr.Env[x] = &SliceV{Obj: obj, Off: c.Off + lo, Len: hi - lo, Cap: mx - lo}
		}
	case *StrV:
		ex.strSlice(st, fr, x, c)
		return
	case *Ptr:
		// slicing *array
		arr, ok := ex.load(st, c).(*ArrayV)
		if !ok || len(c.Path) != 0 {
			panic(unsupported("slice of nested array pointer"))
		}
		n := len(arr.Elems)
		lo, ok1 := get(x.Low, 0)
		hi, ok2 := get(x.High, n)
		if !ok1 || !ok2 || lo < 0 || hi < lo || hi > n {
			panic(unsupported("array slice bounds"))
		}
		fr.Env[x] = &SliceV{Obj: c.Obj, Off: lo, Len: hi - lo, Cap: n - lo}
	default:
		panic(unsupported(fmt.Sprintf("Slice on %T", v)))
	}
	fr.IP++
}

func (ex *Exec) typeAssert(st *State, fr *Frame, x *ssa.TypeAssert) {
	v := ex.eval(st, fr, x.X).(*IfaceV)
	var ok bool
	var res Value
	if _, isIface := x.AssertedType.Underlying().(*types.Interface); isIface {
		if v.Typ != nil {
			ok = types.Implements(v.Typ, x.AssertedType.Underlying().(*types.Interface))
		}
		if ok {
			res = v
		} else {
			res = &IfaceV{}
		}
	} else {
		ok = v.Typ != nil && types.Identical(v.Typ, x.AssertedType)
		if ok {
			res = v.Val
		} else {
			res = ex.zero(x.AssertedType)
		}
	}
	if x.CommaOk {
		fr.Env[x] = &TupleV{[]Value{res, ex.st.Bool(ok)}}
	} else {
		if !ok {
			ex.mayPanic(st, x, "failed type assertion", ex.st.True)
			return
		}
		fr.Env[x] = res
	}
	fr.IP++
}
