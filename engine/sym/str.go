package sym

import (
	"fmt"
	"strconv"
	"strings"

	"verif/engine/smt"
)

// Piece is a part of a rope: literal bytes, or the base-10 rendering of a
// 64-bit integer term (signed or unsigned), or the UTF-8 encoding of a rune
// term.
type Piece struct {
	Lit    string
	Dec    *smt.Term
	Signed bool
	Rune   *smt.Term
}

func (p Piece) isLit() bool { return p.Dec == nil && p.Rune == nil }

type StrAlt struct {
	G *smt.Term
	P []Piece
}

// StrV is a guarded set of ropes. Guards are mutually exclusive and
// exhaustive under the path condition.
type StrV struct{ Alts []StrAlt }

func concStr(s string) *StrV {
	if s == "" {
		return &StrV{[]StrAlt{{G: nil}}}
	}
	return &StrV{[]StrAlt{{G: nil, P: []Piece{{Lit: s}}}}}
}

func (a StrAlt) lit() (string, bool) {
	if len(a.P) == 0 {
		return "", true
	}
	if len(a.P) == 1 && a.P[0].isLit() {
		return a.P[0].Lit, true
	}
	return "", false
}

// Concrete returns the string when there is exactly one literal alternative.
func (s *StrV) Concrete() (string, bool) {
	if len(s.Alts) != 1 {
		return "", false
	}
	return s.Alts[0].lit()
}

// AllLit reports whether every alternative is a literal string.
func (s *StrV) AllLit() bool {
	for _, a := range s.Alts {
		if _, ok := a.lit(); !ok {
			return false
		}
	}
	return true
}

func (s *StrV) String() string {
	if c, ok := s.Concrete(); ok {
		return strconv.Quote(c)
	}
	var parts []string
	for _, a := range s.Alts {
		parts = append(parts, piecesString(a.P))
	}
	return "str{" + strings.Join(parts, " | ") + "}"
}

func piecesString(ps []Piece) string {
	var sb strings.Builder
	for _, p := range ps {
		switch {
		case p.Dec != nil:
			sb.WriteString("<dec " + p.Dec.String() + ">")
		case p.Rune != nil:
			sb.WriteString("<rune " + p.Rune.String() + ">")
		default:
			sb.WriteString(strconv.Quote(p.Lit))
		}
	}
	return sb.String()
}

func normPieces(ps []Piece) []Piece {
	var out []Piece
	for _, p := range ps {
		if p.isLit() {
			if p.Lit == "" {
				continue
			}
			if n := len(out); n > 0 && out[n-1].isLit() {
				out[n-1] = Piece{Lit: out[n-1].Lit + p.Lit}
				continue
			}
		}
		if p.Dec != nil && p.Dec.IsConst() {
			var txt string
			if p.Signed {
				txt = strconv.FormatInt(int64(p.Dec.Val), 10)
			} else {
				txt = strconv.FormatUint(p.Dec.Val, 10)
			}
			q := Piece{Lit: txt}
			if n := len(out); n > 0 && out[n-1].isLit() {
				out[n-1] = Piece{Lit: out[n-1].Lit + q.Lit}
			} else {
				out = append(out, q)
			}
			continue
		}
		if p.Rune != nil && p.Rune.IsConst() {
			q := Piece{Lit: string(rune(int32(p.Rune.Val)))}
			if n := len(out); n > 0 && out[n-1].isLit() {
				out[n-1] = Piece{Lit: out[n-1].Lit + q.Lit}
			} else {
				out = append(out, q)
			}
			continue
		}
		out = append(out, p)
	}
	return out
}

func piecesEqual(a, b []Piece) bool {
	if len(a) != len(b) {
		return false
	}
	for i := range a {
		if a[i].Lit != b[i].Lit || a[i].Dec != b[i].Dec || a[i].Signed != b[i].Signed || a[i].Rune != b[i].Rune {
			return false
		}
	}
	return true
}

func (ex *Exec) guard(g *smt.Term) *smt.Term {
	if g == nil {
		return ex.st.True
	}
	return g
}

// normStr merges alternatives with identical ropes and drops false guards.
func (ex *Exec) normStr(alts []StrAlt) *StrV {
	var out []StrAlt
	for _, a := range alts {
		g := ex.guard(a.G)
		if g.IsFalse() {
			continue
		}
		a.P = normPieces(a.P)
		found := false
		for i := range out {
			if piecesEqual(out[i].P, a.P) {
				out[i].G = ex.st.Or(ex.guard(out[i].G), g)
				found = true
				break
			}
		}
		if !found {
			out = append(out, StrAlt{G: g, P: a.P})
		}
	}
	if len(out) == 1 {
		out[0].G = nil
	}
	if len(out) == 0 {
		// all guards false: unreachable value
		return concStr("")
	}
	return &StrV{out}
}

func (ex *Exec) mergeStr(c *smt.Term, x, y *StrV) *StrV {
	var alts []StrAlt
	for _, a := range x.Alts {
		alts = append(alts, StrAlt{G: ex.st.And(c, ex.guard(a.G)), P: a.P})
	}
	nc := ex.st.Not(c)
	for _, a := range y.Alts {
		alts = append(alts, StrAlt{G: ex.st.And(nc, ex.guard(a.G)), P: a.P})
	}
	return ex.normStr(alts)
}

// strMap applies a native function to every (literal) alternative.
func (ex *Exec) strMap(s *StrV, what string, f func(string) string) *StrV {
	var alts []StrAlt
	for _, a := range s.Alts {
		l, ok := a.lit()
		if !ok {
			panic(unsupported(what + " on rope " + piecesString(a.P)))
		}
		alts = append(alts, StrAlt{G: a.G, P: []Piece{{Lit: f(l)}}})
	}
	return ex.normStr(alts)
}

// strMapPieces applies f to each literal piece separately (for functions that
// distribute over concatenation and leave numerals unchanged, e.g. ToLower).
func (ex *Exec) strMapPieces(s *StrV, f func(string) string) *StrV {
	var alts []StrAlt
	for _, a := range s.Alts {
		ps := make([]Piece, len(a.P))
		for i, p := range a.P {
			if p.isLit() {
				ps[i] = Piece{Lit: f(p.Lit)}
			} else {
				ps[i] = p
			}
		}
		alts = append(alts, StrAlt{G: a.G, P: ps})
	}
	return ex.normStr(alts)
}

// strPred evaluates a native predicate on every literal alternative.
func (ex *Exec) strPred(s *StrV, what string, f func(string) bool) *smt.Term {
	var trues []*smt.Term
	for _, a := range s.Alts {
		l, ok := a.lit()
		if !ok {
			panic(unsupported(what + " on rope " + piecesString(a.P)))
		}
		if f(l) {
			trues = append(trues, ex.guard(a.G))
		}
	}
	return ex.st.Or(trues...)
}

// strInt maps every literal alternative to an integer.
func (ex *Exec) strInt(s *StrV, what string, w int, f func(string) uint64) *smt.Term {
	var res *smt.Term
	for i := len(s.Alts) - 1; i >= 0; i-- {
		a := s.Alts[i]
		l, ok := a.lit()
		if !ok {
			panic(unsupported(what + " on rope " + piecesString(a.P)))
		}
		v := ex.st.BV(f(l), w)
		if res == nil {
			res = v
		} else {
			res = ex.st.Ite(ex.guard(a.G), v, res)
		}
	}
	return res
}

func (ex *Exec) strConcat(x, y *StrV) *StrV {
	var alts []StrAlt
	for _, a := range x.Alts {
		for _, b := range y.Alts {
			ps := append(append([]Piece(nil), a.P...), b.P...)
			alts = append(alts, StrAlt{G: ex.st.And(ex.guard(a.G), ex.guard(b.G)), P: ps})
		}
	}
	return ex.normStr(alts)
}

func isCanonicalDecimal(s string, signed bool) (uint64, bool) {
	if s == "" {
		return 0, false
	}
	if signed {
		v, err := strconv.ParseInt(s, 10, 64)
		if err != nil || strconv.FormatInt(v, 10) != s {
			return 0, false
		}
		return uint64(v), true
	}
	v, err := strconv.ParseUint(s, 10, 64)
	if err != nil || strconv.FormatUint(v, 10) != s {
		return 0, false
	}
	return v, true
}

// ropeEq decides equality of two ropes as a term; ok=false if undecidable by
// this representation.
func (ex *Exec) ropeEq(a, b []Piece) (*smt.Term, bool) {
	la, oka := StrAlt{P: a}.lit()
	lb, okb := StrAlt{P: b}.lit()
	if oka && okb {
		return ex.st.Bool(la == lb), true
	}
	// single numeral vs literal
	if len(a) == 1 && a[0].Dec != nil && okb {
		v, ok := isCanonicalDecimal(lb, a[0].Signed)
		if !ok {
			return ex.st.False, true
		}
		return ex.st.Eq(a[0].Dec, ex.st.BV(v, a[0].Dec.W)), true
	}
	if len(b) == 1 && b[0].Dec != nil && oka {
		return ex.ropeEq(b, a)
	}
	if len(a) == 1 && len(b) == 1 && a[0].Dec != nil && b[0].Dec != nil && a[0].Signed == b[0].Signed && a[0].Dec.W == b[0].Dec.W {
		return ex.st.Eq(a[0].Dec, b[0].Dec), true
	}
	if len(a) == 1 && len(b) == 1 && a[0].Rune != nil && b[0].Rune != nil {
		return ex.st.Eq(a[0].Rune, b[0].Rune), true
	}
	if len(a) == 1 && a[0].Rune != nil && okb {
		rs := []rune(lb)
		if len(rs) != 1 {
			return ex.st.False, true
		}
		return ex.st.Eq(a[0].Rune, ex.st.BV(uint64(uint32(rs[0])), 32)), true
	}
	if len(b) == 1 && b[0].Rune != nil && oka {
		return ex.ropeEq(b, a)
	}
	// piecewise with identical structure
	if len(a) == len(b) {
		conj := []*smt.Term{}
		for i := range a {
			e, ok := ex.ropeEq([]Piece{a[i]}, []Piece{b[i]})
			if !ok {
				return nil, false
			}
			// piecewise equality is only sufficient, not necessary, unless
			// literal pieces delimit the numerals; accept when literals match
			// exactly (then remaining pieces are aligned)
			if a[i].isLit() != b[i].isLit() {
				return nil, false
			}
			conj = append(conj, e)
		}
		// require that literal pieces are non-numeric at the boundaries so
		// that alignment is forced
		for i := range a {
			if a[i].isLit() {
				l := a[i].Lit
				if i > 0 && len(l) > 0 && isDigitOrMinus(l[0]) {
					return nil, false
				}
				if i < len(a)-1 && len(l) > 0 && isDigitOrMinus(l[len(l)-1]) {
					return nil, false
				}
				if b[i].Lit != l {
					// different literals: alignment unknown in general; but if both
					// boundary-safe, unequal literals mean unequal strings only when
					// the neighbours are numerals (which cannot contain these bytes)
					if len(b[i].Lit) > 0 && (isDigitOrMinus(b[i].Lit[0]) || isDigitOrMinus(b[i].Lit[len(b[i].Lit)-1])) {
						return nil, false
					}
				}
			}
		}
		return ex.st.And(conj...), true
	}
	return nil, false
}

func isDigitOrMinus(c byte) bool { return c == '-' || (c >= '0' && c <= '9') }

func (ex *Exec) strEq(x, y *StrV) *smt.Term {
	var disj []*smt.Term
	for _, a := range x.Alts {
		for _, b := range y.Alts {
			e, ok := ex.ropeEq(a.P, b.P)
			if !ok {
				panic(unsupported(fmt.Sprintf("string equality %s == %s", piecesString(a.P), piecesString(b.P))))
			}
			if e.IsFalse() {
				continue
			}
			disj = append(disj, ex.st.And(ex.guard(a.G), ex.guard(b.G), e))
		}
	}
	return ex.st.Or(disj...)
}

// decLen returns the number of bytes of the decimal rendering of t.
func (ex *Exec) decLen(t *smt.Term, signed bool) *smt.Term {
	st := ex.st
	w := t.W
	mag := t
	var neg *smt.Term = st.False
	if signed {
		neg = st.SLt(t, st.BV(0, w))
		mag = st.Ite(neg, st.Neg(t), t)
	}
	res := st.BV(20, 64)
	pow := uint64(10)
	// thresholds: mag < 10 -> 1, < 100 -> 2 ...
	type th struct {
		lim uint64
		n   uint64
	}
	var ths []th
	for n := uint64(1); n <= 19; n++ {
		ths = append(ths, th{pow, n})
		if pow > (^uint64(0))/10 {
			break
		}
		pow *= 10
	}
	for i := len(ths) - 1; i >= 0; i-- {
		lim := ths[i].lim
		if w < 64 && lim > (uint64(1)<<uint(w))-1 {
			continue
		}
		res = st.Ite(st.ULt(mag, st.BV(lim, w)), st.BV(ths[i].n, 64), res)
	}
	return st.Add(res, st.Ite(neg, st.BV(1, 64), st.BV(0, 64)))
}

func (ex *Exec) strLen(s *StrV) *smt.Term {
	st := ex.st
	var res *smt.Term
	for i := len(s.Alts) - 1; i >= 0; i-- {
		a := s.Alts[i]
		n := st.BV(0, 64)
		for _, p := range a.P {
			switch {
			case p.Dec != nil:
				n = st.Add(n, ex.decLen(p.Dec, p.Signed))
			case p.Rune != nil:
				// runes below 0x80 are one byte; U+FFFD is three
				r := p.Rune
				l := st.Ite(st.ULt(r, st.BV(0x80, 32)), st.BV(1, 64),
					st.Ite(st.ULt(r, st.BV(0x800, 32)), st.BV(2, 64),
						st.Ite(st.ULt(r, st.BV(0x10000, 32)), st.BV(3, 64), st.BV(4, 64))))
				n = st.Add(n, l)
			default:
				n = st.Add(n, st.BV(uint64(len(p.Lit)), 64))
			}
		}
		if res == nil {
			res = n
		} else {
			res = st.Ite(ex.guard(a.G), n, res)
		}
	}
	return res
}
