package sym

import (
	"fmt"
	"sync"

	"golang.org/x/tools/go/ssa"

	"verif/engine/smt"
)

// Model of the environment of cmd/gmars' main (C17): the flag package, file
// opening, process exit, random placement and standard output. Flags and
// files are set by harness intrinsics; everything printed to standard output
// is collected; os.Exit ends the path with a recorded status.

func registerCLIIntrinsics() {
	intrinsics["vSetFlagInt"] = func(ex *Exec, st *State, fr *Frame, args []Value, in ssa.Instruction) (Value, *forkReq) {
		if st.CLIFlags == nil {
			st.CLIFlags = map[string]Value{}
		}
		st.CLIFlags[mustStr(args[0], "vSetFlagInt")] = args[1]
		return nil, nil
	}
	intrinsics["vSetFlagBool"] = intrinsics["vSetFlagInt"]
	intrinsics["vSetFlagStr"] = intrinsics["vSetFlagInt"]
	intrinsics["vSetFile"] = func(ex *Exec, st *State, fr *Frame, args []Value, in ssa.Instruction) (Value, *forkReq) {
		if st.CLIFiles == nil {
			st.CLIFiles = map[string]string{}
		}
		st.CLIFiles[mustStr(args[0], "vSetFile")] = mustStr(args[1], "vSetFile")
		st.CLIArgs = append(st.CLIArgs, mustStr(args[0], "vSetFile"))
		return nil, nil
	}
	intrinsics["vPrepareMain"] = func(ex *Exec, st *State, fr *Frame, args []Value, in ssa.Instruction) (Value, *forkReq) {
		st.CLIStdout = nil
		return nil, nil
	}
	intrinsics["vStdout"] = func(ex *Exec, st *State, fr *Frame, args []Value, in ssa.Instruction) (Value, *forkReq) {
		out := concStr("")
		for _, c := range st.CLIStdout {
			out = ex.strConcat(out, c.(*StrV))
		}
		return out, nil
	}
	intrinsics["vExitStatus"] = func(ex *Exec, st *State, fr *Frame, args []Value, in ssa.Instruction) (Value, *forkReq) {
		return ex.st.BV(uint64(int64(st.CLIExit)), 64), nil
	}
}

func (ex *Exec) flagValue(st *State, args []Value, w int) Value {
	name := mustStr(args[0], "flag")
	v, ok := st.CLIFlags[name]
	if !ok {
		v = args[1] // the default
	}
	obj := ex.newObj(st, v)
	return &Ptr{Obj: obj}
}

func (ex *Exec) initCLIStubs() {
	cliOnce.Do(registerCLIIntrinsics)
	t := ex.StubTable
	t["flag.Bool"] = func(ex *Exec, st *State, fr *Frame, args []Value, in ssa.Instruction) (Value, *forkReq) {
		return ex.flagValue(st, args, 0), nil
	}
	t["flag.Int"] = t["flag.Bool"]
	t["flag.String"] = t["flag.Bool"]
	t["flag.Parse"] = func(ex *Exec, st *State, fr *Frame, args []Value, in ssa.Instruction) (Value, *forkReq) {
		return nil, nil
	}
	t["flag.Args"] = func(ex *Exec, st *State, fr *Frame, args []Value, in ssa.Instruction) (Value, *forkReq) {
		var elems []Value
		for _, a := range st.CLIArgs {
			elems = append(elems, concStr(a))
		}
		return ex.newSlice(st, elems, len(elems), concStr("")), nil
	}
	t["os.Open"] = func(ex *Exec, st *State, fr *Frame, args []Value, in ssa.Instruction) (Value, *forkReq) {
		name := mustStr(args[0], "os.Open")
		text, ok := st.CLIFiles[name]
		if !ok {
			return &TupleV{[]Value{&Ptr{}, ex.newErr(concStr("<no such file>"))}}, nil
		}
		obj := ex.newObj(st, &ReaderV{Pieces: []Piece{{Lit: text}}})
		return &TupleV{[]Value{&Ptr{Obj: obj}, &IfaceV{}}}, nil
	}
	t["(*os.File).Close"] = func(ex *Exec, st *State, fr *Frame, args []Value, in ssa.Instruction) (Value, *forkReq) {
		return &IfaceV{}, nil
	}
	t["os.Exit"] = func(ex *Exec, st *State, fr *Frame, args []Value, in ssa.Instruction) (Value, *forkReq) {
		code, ok := ex.constInt(args[0])
		if !ok {
			panic(unsupported("os.Exit with symbolic status"))
		}
		// the process ends here: an exit on inputs the harness considers
		// valid is a violation (the harness only builds valid invocations)
		st.CLIExit = code
		ex.fail(st, "assert", "tool-exits-with-error-status", ex.st.Bool(code != 0), site(in))
		st.Dead = true
		st.Reason = fmt.Sprintf("os.Exit(%d)", code)
		return nil, nil
	}
	t["math/rand.Intn"] = func(ex *Exec, st *State, fr *Frame, args []Value, in ssa.Instruction) (Value, *forkReq) {
		n, ok := ex.constInt(args[0])
		if !ok {
			panic(unsupported("rand.Intn with symbolic bound"))
		}
		if n <= 0 {
			ex.mayPanic(st, in, "rand.Intn: invalid argument", ex.st.True)
			return nil, nil
		}
		if n > 64 {
			panic(unsupported("rand.Intn range too large to enumerate"))
		}
		// every value the generator may return
		full, k := ex.freshName(st, "rand")
		tv := ex.st.Var(full, 64)
		dst := in.(ssa.Value)
		var children []*State
		for v := 0; v < n; v++ {
			ch := st.Clone()
			c := ex.st.BV(uint64(v), 64)
			ch.addPC(ex.st.Eq(tv, c))
			ch.Inputs = append(ch.Inputs, Input{Name: "rand", Idx: k, Term: tv}, Input{Name: "randN", Idx: k, Term: ex.st.BV(uint64(n), 64)})
			ch.Forked = true
			cf := ch.top()
			cf.Env[dst] = c
			cf.IP++
			children = append(children, ch)
		}
		return nil, &forkReq{children: children}
	}
	// standard output of the tool
	printer := func(withNewline bool) stubFn {
		return func(ex *Exec, st *State, fr *Frame, args []Value, in ssa.Instruction) (Value, *forkReq) {
			var out Value
			if withNewline {
				// Println(args...)
				res := concStr("")
				if sl, ok := args[0].(*SliceV); ok {
					for i, e := range ex.sliceElems(st, sl) {
						if i > 0 {
							res = ex.strConcat(res, concStr(" "))
						}
						res = ex.strConcat(res, ex.formatArg(st, e.(*IfaceV), 'v'))
					}
				}
				out = ex.strConcat(res, concStr("\n"))
			} else {
				v, req := stubSprintf(ex, st, fr, args, in)
				if req != nil {
					return nil, req
				}
				out = v
			}
			st.CLIStdout = append(st.CLIStdout, out)
			return &TupleV{[]Value{ex.st.BV(0, 64), &IfaceV{}}}, nil
		}
	}
	t["fmt.Printf"] = printer(false)
	t["fmt.Println"] = printer(true)
	t["fmt.Fprintf"] = func(ex *Exec, st *State, fr *Frame, args []Value, in ssa.Instruction) (Value, *forkReq) {
		return &TupleV{[]Value{ex.st.BV(0, 64), &IfaceV{}}}, nil
	}
}

var cliOnce sync.Once

var _ = smt.Unsat
