package sym

import (
	"fmt"
	"sort"
	"strings"

	"golang.org/x/tools/go/ssa"

	"verif/engine/smt"
)

type Frame struct {
	Fn       *ssa.Function
	Block    *ssa.BasicBlock
	Prev     *ssa.BasicBlock
	IP       int
	Env      map[ssa.Value]Value
	FreeVars []Value
	Call     ssa.Value // instruction in the caller receiving the result (nil for go / harness entry)
	Defers   []*deferred
	Visits   map[int]int // loop-header visit counts
	Recover  *recoverInfo
}

type deferred struct {
	fn   *FuncV
	args []Value
	// invoke-mode deferred calls are not used by the code under test
}

type recoverInfo struct{}

type GStatus int

const (
	GRunnable GStatus = iota
	GBlockedSend
	GBlockedRecv
	GDone
)

type Goroutine struct {
	Stack   []*Frame
	Status  GStatus
	Chan    int   // channel object blocked on
	SendVal Value // value being sent
	RecvDst ssa.Value
	RecvOK  bool // comma-ok receive
	Name    string
}

type Obligation struct {
	ID   string    // assertion id
	Kind string    // "assert", "panic", "unwind", "leak", "hang", "reach"
	Cond *smt.Term // violated iff satisfiable
	Site string
}

type Input struct {
	Name string
	Idx  int
	Term *smt.Term // nil for string choices
	Str  []string  // vocabulary for string inputs
	Sel  *smt.Term
}

type Observation struct {
	Name string
	Val  Value
}

type State struct {
	PC     []*smt.Term
	Heap   map[int]Value
	Gs     []*Goroutine
	Cur    int
	Dead   bool
	Done   bool // main goroutine returned from the harness entry
	Reason string

	Counters map[string]int
	Inputs   []Input
	Obs      []Observation
	Oblig    []Obligation
	Reached  map[string]bool
	Unwind   int
	Prune    bool
	Steps    int
	ExitCode *smt.Term
	Trace    []string
	MapPerm  bool
	// command-line tool model (C17)
	CLIFlags     map[string]Value  // flag name -> value set by the harness
	CLIArgs      []string          // positional arguments
	CLIFiles     map[string]string // file name -> content
	CLIStdout    []Value           // *StrV chunks printed to standard output
	CLIExit      int               // -1: not exited; otherwise the os.Exit status
	PendingTokens Value // token slice the next lexer of the package hands out (vTokenReader)
	SharedWrites []string          // package-level variables written after initialisation
	FeasLen      int               // length of PC when the path condition was last found satisfiable
	Forked       bool              // some symbolic branch or split has been taken on this path
	// AbstractArith: symbolic*symbolic products and divisions by a symbolic
	// divisor become uninterpreted functions (sound for proving equalities of
	// two computations; a satisfiable answer must be confirmed by replay)
	AbstractArith bool
	StateFnCt     map[string]int
}

func (s *State) top() *Frame {
	st := s.Gs[s.Cur].Stack
	return st[len(st)-1]
}

func (s *State) depth() int { return len(s.Gs[s.Cur].Stack) }

func cloneFrame(f *Frame) *Frame {
	g := *f
	g.Env = make(map[ssa.Value]Value, len(f.Env))
	for k, v := range f.Env {
		g.Env[k] = v
	}
	if f.Visits != nil {
		g.Visits = make(map[int]int, len(f.Visits))
		for k, v := range f.Visits {
			g.Visits[k] = v
		}
	}
	g.Defers = append([]*deferred(nil), f.Defers...)
	return &g
}

func (s *State) Clone() *State {
	n := *s
	n.PC = append([]*smt.Term(nil), s.PC...)
	n.Heap = make(map[int]Value, len(s.Heap))
	for k, v := range s.Heap {
		n.Heap[k] = v
	}
	n.Gs = make([]*Goroutine, len(s.Gs))
	for i, g := range s.Gs {
		ng := *g
		ng.Stack = make([]*Frame, len(g.Stack))
		for j, f := range g.Stack {
			ng.Stack[j] = cloneFrame(f)
		}
		n.Gs[i] = &ng
	}
	n.Counters = make(map[string]int, len(s.Counters))
	for k, v := range s.Counters {
		n.Counters[k] = v
	}
	n.Inputs = append([]Input(nil), s.Inputs...)
	n.Obs = append([]Observation(nil), s.Obs...)
	n.Oblig = append([]Obligation(nil), s.Oblig...)
	n.Reached = make(map[string]bool, len(s.Reached))
	for k, v := range s.Reached {
		n.Reached[k] = v
	}
	n.Trace = append([]string(nil), s.Trace...)
	n.SharedWrites = append([]string(nil), s.SharedWrites...)
	if s.CLIFlags != nil {
		n.CLIFlags = make(map[string]Value, len(s.CLIFlags))
		for k, v := range s.CLIFlags {
			n.CLIFlags[k] = v
		}
	}
	if s.CLIFiles != nil {
		n.CLIFiles = make(map[string]string, len(s.CLIFiles))
		for k, v := range s.CLIFiles {
			n.CLIFiles[k] = v
		}
	}
	n.CLIArgs = append([]string(nil), s.CLIArgs...)
	n.CLIStdout = append([]Value(nil), s.CLIStdout...)
	n.StateFnCt = make(map[string]int, len(s.StateFnCt))
	for k, v := range s.StateFnCt {
		n.StateFnCt[k] = v
	}
	return &n
}

// locKey identifies the control location of all goroutines.
func (s *State) locKey() string {
	var sb strings.Builder
	fmt.Fprintf(&sb, "cur%d;", s.Cur)
	for _, g := range s.Gs {
		fmt.Fprintf(&sb, "g%d:", g.Status)
		for _, f := range g.Stack {
			fmt.Fprintf(&sb, "%p/%d/%d,", f.Fn, f.Block.Index, f.IP)
		}
		sb.WriteString(";")
	}
	if s.Done {
		sb.WriteString("done")
	}
	return sb.String()
}

func commonPrefix(a, b []*smt.Term) int {
	n := 0
	for n < len(a) && n < len(b) && a[n] == b[n] {
		n++
	}
	return n
}

// mergeStates tries to join b into a (both at the same location). Returns
// nil when the states cannot be joined.
func (ex *Exec) mergeStates(a, b *State) *State {
	if a.Cur != b.Cur || len(a.Gs) != len(b.Gs) || a.Done != b.Done || a.Unwind != b.Unwind || a.Prune != b.Prune || a.AbstractArith != b.AbstractArith {
		return nil
	}
	st := ex.st
	L := commonPrefix(a.PC, b.PC)
	ga := st.And(a.PC[L:]...)
	gb := st.And(b.PC[L:]...)
	if ga.IsTrue() && !gb.IsTrue() {
		// a's guard is trivially true: use b's guard negated for selection
		return ex.mergeStatesG(b, a, gb, ga, L)
	}
	return ex.mergeStatesG(a, b, ga, gb, L)
}

func (ex *Exec) mergeStatesG(a, b *State, ga, gb *smt.Term, L int) *State {
	st := ex.st
	n := a.Clone()
	n.PC = append(append([]*smt.Term(nil), a.PC[:L]...), st.Or(ga, gb))
	// heap
	for id, vb := range b.Heap {
		va, ok := a.Heap[id]
		if !ok {
			n.Heap[id] = vb
			continue
		}
		if va == vb {
			continue
		}
		m, ok := ex.mergeVal(ga, va, vb)
		if !ok {
			return nil
		}
		n.Heap[id] = m
	}
	// frames
	for gi := range a.Gs {
		sa, sb := a.Gs[gi], b.Gs[gi]
		if sa.Status != sb.Status || len(sa.Stack) != len(sb.Stack) || sa.Chan != sb.Chan || sa.RecvDst != sb.RecvDst {
			return nil
		}
		if sa.SendVal != nil || sb.SendVal != nil {
			m, ok := ex.mergeVal(ga, sa.SendVal, sb.SendVal)
			if !ok {
				return nil
			}
			n.Gs[gi].SendVal = m
		}
		for fi := range sa.Stack {
			fa, fb := sa.Stack[fi], sb.Stack[fi]
			if fa.Fn != fb.Fn || fa.Block != fb.Block || fa.IP != fb.IP || len(fa.Defers) != len(fb.Defers) {
				return nil
			}
			nf := n.Gs[gi].Stack[fi]
			atStart := fi == len(sa.Stack)-1
			for k, va := range fa.Env {
				vb, ok := fb.Env[k]
				if !ok {
					delete(nf.Env, k)
					continue
				}
				if va == vb {
					continue
				}
				// values defined in blocks that do not dominate the current
				// block are dead here
				if atStart {
					if ins, ok := k.(ssa.Instruction); ok && ins.Block() != nil {
						if !ins.Block().Dominates(fa.Block) {
							delete(nf.Env, k)
							continue
						}
					}
				}
				m, ok := ex.mergeVal(ga, va, vb)
				if !ok {
					if ex.Debug {
						fmt.Printf("merge fail at %s: %s: %s vs %s\n", fa.Fn.Name(), k.Name(), valString(va), valString(vb))
					}
					return nil
				}
				nf.Env[k] = m
			}
			for i := range fa.FreeVars {
				m, ok := ex.mergeVal(ga, fa.FreeVars[i], fb.FreeVars[i])
				if !ok {
					return nil
				}
				nf.FreeVars[i] = m
			}
			if fa.Visits != nil || fb.Visits != nil {
				if nf.Visits == nil {
					nf.Visits = map[int]int{}
				}
				for k, v := range fb.Visits {
					if v > nf.Visits[k] {
						nf.Visits[k] = v
					}
				}
			}
		}
	}
	// counters: must agree for names used later; take max and require equality
	for k, v := range b.Counters {
		if a.Counters[k] != v {
			// different numbers of nondeterministic draws on the two sides:
			// the draw sequences diverge, keep the paths apart
			return nil
		}
	}
	for k, v := range a.Counters {
		if b.Counters[k] != v {
			return nil
		}
	}
	// inputs: identical by the counter check (same names drawn in program order)
	if len(a.Inputs) != len(b.Inputs) {
		return nil
	}
	// observations
	if len(a.Obs) != len(b.Obs) {
		return nil
	}
	for i := range a.Obs {
		if a.Obs[i].Name != b.Obs[i].Name {
			return nil
		}
		m, ok := ex.mergeVal(ga, a.Obs[i].Val, b.Obs[i].Val)
		if !ok {
			return nil
		}
		n.Obs[i].Val = m
	}
	// obligations: union (conditions already contain their path conditions)
	seen := map[string]bool{}
	for _, o := range a.Oblig {
		seen[fmt.Sprintf("%s|%d", o.ID, o.Cond.ID)] = true
	}
	for _, o := range b.Oblig {
		if !seen[fmt.Sprintf("%s|%d", o.ID, o.Cond.ID)] {
			n.Oblig = append(n.Oblig, o)
		}
	}
	for k := range b.Reached {
		n.Reached[k] = true
	}
	for k, v := range b.StateFnCt {
		if v > n.StateFnCt[k] {
			n.StateFnCt[k] = v
		}
	}
	if b.Steps > n.Steps {
		n.Steps = b.Steps
	}
	if a.ExitCode != nil || b.ExitCode != nil {
		return nil
	}
	ex.Stat.Merges++
	return n
}

// mergeAll joins as many states as possible (those at equal locations).
func (ex *Exec) mergeAll(states []*State) []*State {
	if len(states) <= 1 {
		return states
	}
	groups := map[string][]*State{}
	var order []string
	var finished []*State
	for _, s := range states {
		// finished and dead states are never merged: nothing runs on them
		// any more, their obligations are discharged one by one
		if s.Done || s.Dead {
			finished = append(finished, s)
			continue
		}
		k := s.locKey()
		if _, ok := groups[k]; !ok {
			order = append(order, k)
		}
		groups[k] = append(groups[k], s)
	}
	sort.Strings(order)
	var out []*State
	for _, k := range order {
		g := groups[k]
		var acc []*State
		for _, s := range g {
			merged := false
			for i, a := range acc {
				if m := ex.mergeStates(a, s); m != nil {
					acc[i] = m
					merged = true
					break
				}
			}
			if !merged {
				acc = append(acc, s)
			}
		}
		out = append(out, acc...)
	}
	return append(out, finished...)
}

func (s *State) pcTerm(st *smt.Store) *smt.Term { return st.And(s.PC...) }

func (s *State) addPC(t *smt.Term) {
	if t.IsTrue() {
		return
	}
	s.PC = append(s.PC, t)
}
