package sym

import (
	"fmt"
	"go/token"
	"go/types"
	"os"
	"strings"

	"golang.org/x/tools/go/ssa"

	"verif/engine/smt"
)

type stubFn func(ex *Exec, st *State, fr *Frame, args []Value, in ssa.Instruction) (Value, *forkReq)

const harnessPkg = "github.com/bobertlo/gmars."

func (ex *Exec) freshName(st *State, name string) (string, int) {
	k := st.Counters[name]
	st.Counters[name] = k + 1
	return fmt.Sprintf("%s#%d", name, k), k
}

func mustStr(v Value, what string) string {
	s, ok := v.(*StrV).Concrete()
	if !ok {
		panic(unsupported(what + ": name must be a concrete string"))
	}
	return s
}

func (ex *Exec) freshInput(st *State, args []Value, w int) *smt.Term {
	name := mustStr(args[0], "intrinsic")
	full, k := ex.freshName(st, name)
	var t *smt.Term
	if w == 0 {
		t = ex.st.Var(full, 0)
	} else {
		t = ex.st.Var(full, w)
	}
	st.Inputs = append(st.Inputs, Input{Name: name, Idx: k, Term: t})
	return t
}

var intrinsics map[string]stubFn

func init() {
	intrinsics = map[string]stubFn{
		"vU64": func(ex *Exec, st *State, fr *Frame, args []Value, in ssa.Instruction) (Value, *forkReq) {
			return ex.freshInput(st, args, 64), nil
		},
		"vInt": func(ex *Exec, st *State, fr *Frame, args []Value, in ssa.Instruction) (Value, *forkReq) {
			return ex.freshInput(st, args, 64), nil
		},
		"vU32": func(ex *Exec, st *State, fr *Frame, args []Value, in ssa.Instruction) (Value, *forkReq) {
			return ex.freshInput(st, args, 32), nil
		},
		"vU8": func(ex *Exec, st *State, fr *Frame, args []Value, in ssa.Instruction) (Value, *forkReq) {
			return ex.freshInput(st, args, 8), nil
		},
		"vBool": func(ex *Exec, st *State, fr *Frame, args []Value, in ssa.Instruction) (Value, *forkReq) {
			return ex.freshInput(st, args, 0), nil
		},
		"vChoose": func(ex *Exec, st *State, fr *Frame, args []Value, in ssa.Instruction) (Value, *forkReq) {
			n, ok := ex.constInt(args[1])
			if !ok || n <= 0 {
				panic(unsupported("vChoose: n must be a positive constant"))
			}
			t := ex.freshInput(st, args, 64)
			st.addPC(ex.st.ULt(t, ex.st.BV(uint64(n), 64)))
			return t, nil
		},
		"vPick": func(ex *Exec, st *State, fr *Frame, args []Value, in ssa.Instruction) (Value, *forkReq) {
			// vPick(name, lo, hi) int: a nondeterministic integer in [lo, hi],
			// explored by forking into one concrete child per value
			name := mustStr(args[0], "vPick")
			lo, ok1 := ex.constInt(args[1])
			hi, ok2 := ex.constInt(args[2])
			if !ok1 || !ok2 || hi < lo || hi-lo > 64 {
				panic(unsupported("vPick: bad range"))
			}
			full, k := ex.freshName(st, name)
			t := ex.st.Var(full, 64)
			dst := in.(ssa.Value)
			var children []*State
			for v := lo; v <= hi; v++ {
				ch := st.Clone()
				c := ex.st.BV(uint64(int64(v)), 64)
				ch.addPC(ex.st.Eq(t, c))
				ch.Inputs = append(ch.Inputs, Input{Name: name, Idx: k, Term: t})
				ch.Forked = true
				cf := ch.top()
				cf.Env[dst] = c
				cf.IP++
				children = append(children, ch)
			}
			return nil, &forkReq{children: children}
		},
		"vAssume": func(ex *Exec, st *State, fr *Frame, args []Value, in ssa.Instruction) (Value, *forkReq) {
			c := args[0].(*smt.Term)
			if c.IsFalse() {
				st.Dead = true
				st.Reason = "assume false"
				return nil, nil
			}
			st.addPC(c)
			if !st.Forked {
				ex.st.NoteAssumption(c)
			}
			return nil, nil
		},
		"vAssert": func(ex *Exec, st *State, fr *Frame, args []Value, in ssa.Instruction) (Value, *forkReq) {
			id := mustStr(args[0], "vAssert")
			c := args[1].(*smt.Term)
			st.Reached[id] = true
			if os.Getenv("VERIF_DEBUG_ASSERT") != "" {
				fmt.Printf("[assert] %s const=%v size=%d\n", id, c.IsConst(), smt.Size(c))
			}
			ex.Stat.Asserts++
			if c.IsTrue() {
				ex.Stat.AssertsConst++
			}
			if !c.IsTrue() {
				ex.fail(st, "assert", id, ex.st.Not(c), site(in))
			}
			return nil, nil
		},
		"vReach": func(ex *Exec, st *State, fr *Frame, args []Value, in ssa.Instruction) (Value, *forkReq) {
			st.Reached[mustStr(args[0], "vReach")] = true
			return nil, nil
		},
		"vImplies": func(ex *Exec, st *State, fr *Frame, args []Value, in ssa.Instruction) (Value, *forkReq) {
			return ex.st.Implies(args[0].(*smt.Term), args[1].(*smt.Term)), nil
		},
		"vAnd": func(ex *Exec, st *State, fr *Frame, args []Value, in ssa.Instruction) (Value, *forkReq) {
			return ex.st.And(args[0].(*smt.Term), args[1].(*smt.Term)), nil
		},
		"vOr": func(ex *Exec, st *State, fr *Frame, args []Value, in ssa.Instruction) (Value, *forkReq) {
			return ex.st.Or(args[0].(*smt.Term), args[1].(*smt.Term)), nil
		},
		"vIte": func(ex *Exec, st *State, fr *Frame, args []Value, in ssa.Instruction) (Value, *forkReq) {
			return ex.st.Ite(args[0].(*smt.Term), args[1].(*smt.Term), args[2].(*smt.Term)), nil
		},
		"vIteInt": func(ex *Exec, st *State, fr *Frame, args []Value, in ssa.Instruction) (Value, *forkReq) {
			return ex.st.Ite(args[0].(*smt.Term), args[1].(*smt.Term), args[2].(*smt.Term)), nil
		},
		"vParam": func(ex *Exec, st *State, fr *Frame, args []Value, in ssa.Instruction) (Value, *forkReq) {
			name := mustStr(args[0], "vParam")
			v, ok := ex.Params[name]
			if !ok {
				panic(unsupported("vParam: no job parameter " + name))
			}
			return ex.st.BV(uint64(int64(v)), 64), nil
		},
		"vParamOr": func(ex *Exec, st *State, fr *Frame, args []Value, in ssa.Instruction) (Value, *forkReq) {
			name := mustStr(args[0], "vParamOr")
			if v, ok := ex.Params[name]; ok {
				return ex.st.BV(uint64(int64(v)), 64), nil
			}
			return args[1], nil
		},
		"vKnown": func(ex *Exec, st *State, fr *Frame, args []Value, in ssa.Instruction) (Value, *forkReq) {
			return ex.st.Bool(ex.Known[mustStr(args[0], "vKnown")]), nil
		},
		"vObserve": func(ex *Exec, st *State, fr *Frame, args []Value, in ssa.Instruction) (Value, *forkReq) {
			st.Obs = append(st.Obs, Observation{Name: mustStr(args[0], "vObserve"), Val: args[1]})
			return nil, nil
		},
		"vObserveStr": func(ex *Exec, st *State, fr *Frame, args []Value, in ssa.Instruction) (Value, *forkReq) {
			st.Obs = append(st.Obs, Observation{Name: mustStr(args[0], "vObserveStr"), Val: args[1]})
			return nil, nil
		},
		"vObserveBool": func(ex *Exec, st *State, fr *Frame, args []Value, in ssa.Instruction) (Value, *forkReq) {
			st.Obs = append(st.Obs, Observation{Name: mustStr(args[0], "vObserveBool"), Val: args[1]})
			return nil, nil
		},
		"vUnwind": func(ex *Exec, st *State, fr *Frame, args []Value, in ssa.Instruction) (Value, *forkReq) {
			n, ok := ex.constInt(args[0])
			if !ok {
				panic(unsupported("vUnwind: constant expected"))
			}
			st.Unwind = n
			return nil, nil
		},
		"vPrune": func(ex *Exec, st *State, fr *Frame, args []Value, in ssa.Instruction) (Value, *forkReq) {
			c := args[0].(*smt.Term)
			st.Prune = c.IsTrue()
			return nil, nil
		},
		"vAbstractArith": func(ex *Exec, st *State, fr *Frame, args []Value, in ssa.Instruction) (Value, *forkReq) {
			st.AbstractArith = args[0].(*smt.Term).IsTrue()
			return nil, nil
		},
		"vMapPerm": func(ex *Exec, st *State, fr *Frame, args []Value, in ssa.Instruction) (Value, *forkReq) {
			st.MapPerm = args[0].(*smt.Term).IsTrue()
			return nil, nil
		},
		"vStr": func(ex *Exec, st *State, fr *Frame, args []Value, in ssa.Instruction) (Value, *forkReq) {
			name := mustStr(args[0], "vStr")
			vocab := ex.sliceElems(st, args[1].(*SliceV))
			if len(vocab) == 0 {
				panic(unsupported("vStr: empty vocabulary"))
			}
			full, k := ex.freshName(st, name)
			sel := ex.st.Var(full, 64)
			st.addPC(ex.st.ULt(sel, ex.st.BV(uint64(len(vocab)), 64)))
			var alts []StrAlt
			var words []string
			for i, v := range vocab {
				w := mustStr(v, "vStr vocabulary")
				words = append(words, w)
				alts = append(alts, StrAlt{G: ex.st.Eq(sel, ex.st.BV(uint64(i), 64)), P: []Piece{{Lit: w}}})
			}
			st.Inputs = append(st.Inputs, Input{Name: name, Idx: k, Term: sel, Str: words})
			// identical words collapse; keep exhaustive guards
			return ex.normStr(alts), nil
		},
		"vDec": func(ex *Exec, st *State, fr *Frame, args []Value, in ssa.Instruction) (Value, *forkReq) {
			// vDec(v int) string: the decimal rendering of v as a rope atom
			return ex.normStr([]StrAlt{{P: []Piece{{Dec: args[0].(*smt.Term), Signed: true}}}}), nil
		},
		"vDecU": func(ex *Exec, st *State, fr *Frame, args []Value, in ssa.Instruction) (Value, *forkReq) {
			return ex.normStr([]StrAlt{{P: []Piece{{Dec: args[0].(*smt.Term), Signed: false}}}}), nil
		},
		"vUF2": func(ex *Exec, st *State, fr *Frame, args []Value, in ssa.Instruction) (Value, *forkReq) {
			// vUF2(name string, a, b int) int : uninterpreted binary function
			name := mustStr(args[0], "vUF2")
			a, b := args[1].(*smt.Term), args[2].(*smt.Term)
			if a.IsConst() && b.IsConst() {
				// concrete operands: the operation itself
				switch name {
				case "mul":
					return ex.st.Mul(a, b), nil
				case "div":
					if b.Val != 0 {
						return ex.st.Bin(smt.OpSDiv, a, b), nil
					}
				case "rem":
					if b.Val != 0 {
						return ex.st.Bin(smt.OpSRem, a, b), nil
					}
				}
			}
			if name == "mul" {
				if a.IsConst() || b.IsConst() {
					return ex.st.Mul(a, b), nil
				}
			} else if b.IsConst() && b.Val != 0 {
				op := smt.OpSDiv
				if name == "rem" {
					op = smt.OpSRem
				}
				return ex.st.Bin(op, a, b), nil
			}
			return ex.st.SignedUF(name, a, b), nil
		},
		"vSharedWrites": func(ex *Exec, st *State, fr *Frame, args []Value, in ssa.Instruction) (Value, *forkReq) {
			// number of stores to package-level variables since initialisation
			return ex.st.BV(uint64(len(st.SharedWrites)), 64), nil
		},
		"vTrace": func(ex *Exec, st *State, fr *Frame, args []Value, in ssa.Instruction) (Value, *forkReq) {
			st.Trace = append(st.Trace, mustStr(args[0], "vTrace"))
			return nil, nil
		},
		"vStateCount": func(ex *Exec, st *State, fr *Frame, args []Value, in ssa.Instruction) (Value, *forkReq) {
			return ex.st.BV(uint64(st.StateFnCt[mustStr(args[0], "vStateCount")]), 64), nil
		},
	}
}

func (ex *Exec) intrinsic(name string) stubFn {
	// intrinsics live in the gmars package and (copied) in cmd/gmars
	if !strings.HasPrefix(name, "github.com/bobertlo/gmars") {
		return nil
	}
	i := strings.LastIndex(name, ".")
	if i < 0 {
		return nil
	}
	short := name[i+1:]
	if strings.Contains(name[:i], "(") {
		return nil // a method
	}
	if h, ok := intrinsics[short]; ok {
		return h
	}
	return nil
}

// dummyValue is a key for results of nested calls.
type dummyValue struct{ name string }

func (d *dummyValue) Name() string                  { return d.name }
func (d *dummyValue) String() string                { return d.name }
func (d *dummyValue) Type() types.Type              { return nil }
func (d *dummyValue) Parent() *ssa.Function         { return nil }
func (d *dummyValue) Referrers() *[]ssa.Instruction { return nil }
func (d *dummyValue) Pos() token.Pos                { return token.NoPos }

// callNested runs fn(args) to completion inside the current state and
// returns its single merged result. The state object is updated in place.
func (ex *Exec) callNested(st *State, fn *ssa.Function, args []Value, bindings []Value) Value {
	if len(fn.Blocks) == 0 {
		panic(unsupported("nested call of external " + fn.String()))
	}
	ex.noteFunc(fn)
	key := &dummyValue{name: "$nested"}
	nf := &Frame{Fn: fn, Env: map[ssa.Value]Value{}, FreeVars: bindings, Call: key}
	for i, p := range fn.Params {
		nf.Env[p] = args[i]
	}
	g := st.Gs[st.Cur]
	d := len(g.Stack)
	g.Stack = append(g.Stack, nf)
	ex.enterBlock(st, nf, nil, fn.Blocks[0])
	outs := ex.runTo(st, st.Cur, d+1, nil)
	var live []*State
	for _, o := range outs {
		if !o.Dead {
			live = append(live, o)
		} else {
			// keep obligations of dead sub-paths
			ex.orphans = append(ex.orphans, o)
		}
	}
	if len(live) != 1 {
		panic(unsupported(fmt.Sprintf("nested call of %s produced %d unmergeable states", fn.String(), len(live))))
	}
	*st = *live[0]
	res := st.top().Env[key]
	delete(st.top().Env, key)
	return res
}

// Orphans returns dead sub-states produced inside nested calls (their
// obligations still have to be discharged).
func (ex *Exec) Orphans() []*State { return ex.orphans }

// CollectTerms lists the terms a value depends on (for model queries).
func CollectTerms(v Value) []*smt.Term {
	switch x := v.(type) {
	case *smt.Term:
		return []*smt.Term{x}
	case *StrV:
		var out []*smt.Term
		for _, a := range x.Alts {
			if a.G != nil {
				out = append(out, a.G)
			}
			for _, p := range a.P {
				if p.Dec != nil {
					out = append(out, p.Dec)
				}
				if p.Rune != nil {
					out = append(out, p.Rune)
				}
			}
		}
		return out
	}
	return nil
}

// Concretize renders an observed value under an assignment of the input
// variables (by evaluating the engine's terms) in the format the native
// intrinsics use.
func Concretize(st *smt.Store, v Value, env map[string]uint64, memo map[int]uint64) string {
	ev := func(t *smt.Term) uint64 { return st.Eval(t, env, memo) }
	switch x := v.(type) {
	case *smt.Term:
		return fmt.Sprintf("%d", ev(x))
	case *StrV:
		for _, a := range x.Alts {
			if a.G != nil && ev(a.G) == 0 {
				continue
			}
			var sb strings.Builder
			for _, p := range a.P {
				switch {
				case p.Dec != nil:
					val := ev(p.Dec)
					if p.Signed {
						fmt.Fprintf(&sb, "%d", int64(val))
					} else {
						fmt.Fprintf(&sb, "%d", val)
					}
				case p.Rune != nil:
					sb.WriteRune(rune(int32(ev(p.Rune))))
				default:
					sb.WriteString(p.Lit)
				}
			}
			return "s:" + sb.String()
		}
		return "s:<no alternative selected>"
	}
	return "?"
}
