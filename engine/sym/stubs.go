package sym

import (
	"fmt"
	"go/types"
	"strconv"
	"strings"
	"unicode"

	"golang.org/x/tools/go/ssa"

	"verif/engine/smt"
)

var opaqueErrType = types.NewNamed(types.NewTypeName(0, nil, "opaqueError", nil), types.NewStruct(nil, nil), nil)

func (ex *Exec) newErr(msg *StrV) Value {
	return &IfaceV{Typ: opaqueErrType, Val: &OpaqueErr{Msg: msg}}
}

func (ex *Exec) initStubs() {
	t := map[string]stubFn{}
	ex.StubTable = t
	t["fmt.Errorf"] = func(ex *Exec, st *State, fr *Frame, args []Value, in ssa.Instruction) (Value, *forkReq) {
		return ex.newErr(concStr("<error>")), nil
	}
	t["errors.New"] = t["fmt.Errorf"]
	t["fmt.Sprintf"] = stubSprintf
	t["fmt.Printf"] = func(ex *Exec, st *State, fr *Frame, args []Value, in ssa.Instruction) (Value, *forkReq) {
		return &TupleV{[]Value{ex.st.BV(0, 64), &IfaceV{}}}, nil
	}
	t["fmt.Println"] = t["fmt.Printf"]
	t["fmt.Fprintf"] = t["fmt.Printf"]

	lit1 := func(name string, f func(string) string) {
		t[name] = func(ex *Exec, st *State, fr *Frame, args []Value, in ssa.Instruction) (Value, *forkReq) {
			return ex.strMap(args[0].(*StrV), name, f), nil
		}
	}
	t["strings.ToLower"] = func(ex *Exec, st *State, fr *Frame, args []Value, in ssa.Instruction) (Value, *forkReq) {
		return ex.strMapPieces(args[0].(*StrV), strings.ToLower), nil
	}
	t["strings.ToUpper"] = func(ex *Exec, st *State, fr *Frame, args []Value, in ssa.Instruction) (Value, *forkReq) {
		return ex.strMapPieces(args[0].(*StrV), strings.ToUpper), nil
	}
	t["strings.TrimSpace"] = func(ex *Exec, st *State, fr *Frame, args []Value, in ssa.Instruction) (Value, *forkReq) {
		return ex.strTrimSpace(args[0].(*StrV)), nil
	}
	_ = lit1
	pred2 := func(name string, f func(a, b string) bool) {
		t[name] = func(ex *Exec, st *State, fr *Frame, args []Value, in ssa.Instruction) (Value, *forkReq) {
			b, ok := args[1].(*StrV).Concrete()
			if !ok {
				panic(unsupported(name + " with symbolic second argument"))
			}
			return ex.strPred2(args[0].(*StrV), name, b, f), nil
		}
	}
	pred2("strings.HasPrefix", strings.HasPrefix)
	pred2("strings.HasSuffix", strings.HasSuffix)
	pred2("strings.Contains", strings.Contains)
	t["strings.Split"] = func(ex *Exec, st *State, fr *Frame, args []Value, in ssa.Instruction) (Value, *forkReq) {
		sep, ok := args[1].(*StrV).Concrete()
		if !ok || sep == "" {
			panic(unsupported("strings.Split with symbolic separator"))
		}
		return ex.strSplitLike(st, fr, in, args[0].(*StrV), func(ps []Piece) [][]Piece { return ropeSplit(ps, sep) })
	}
	t["strings.Fields"] = func(ex *Exec, st *State, fr *Frame, args []Value, in ssa.Instruction) (Value, *forkReq) {
		return ex.strSplitLike(st, fr, in, args[0].(*StrV), ropeFields)
	}
	t["strings.ReplaceAll"] = func(ex *Exec, st *State, fr *Frame, args []Value, in ssa.Instruction) (Value, *forkReq) {
		old, ok1 := args[1].(*StrV).Concrete()
		nw, ok2 := args[2].(*StrV).Concrete()
		if !ok1 || !ok2 {
			panic(unsupported("strings.ReplaceAll with symbolic pattern"))
		}
		if len(old) != 1 || isDigitOrMinus(old[0]) {
			panic(unsupported("strings.ReplaceAll with multi-byte or numeric pattern"))
		}
		return ex.strMapPieces(args[0].(*StrV), func(s string) string { return strings.ReplaceAll(s, old, nw) }), nil
	}
	upred := func(name string, f func(rune) bool) {
		t[name] = func(ex *Exec, st *State, fr *Frame, args []Value, in ssa.Instruction) (Value, *forkReq) {
			r := args[0].(*smt.Term)
			if r.IsConst() {
				return ex.st.Bool(f(rune(int32(r.Val)))), nil
			}
			// symbolic rune: the tape guarantees r < 0x100, r == U+0663 or r == U+FFFD
			var disj []*smt.Term
			for c := rune(0); c < 0x100; c++ {
				if f(c) {
					disj = append(disj, ex.st.Eq(r, ex.st.BV(uint64(c), 32)))
				}
			}
			for _, c := range []rune{0x663, 0xFFFD} {
				if f(c) {
					disj = append(disj, ex.st.Eq(r, ex.st.BV(uint64(c), 32)))
				}
			}
			// outside the modelled alphabet: fail closed
			inAlpha := ex.st.Or(ex.st.ULt(r, ex.st.BV(0x100, 32)), ex.st.Eq(r, ex.st.BV(0x663, 32)), ex.st.Eq(r, ex.st.BV(0xFFFD, 32)))
			if ex.feasible(st, ex.st.Not(inAlpha)) {
				panic(unsupported(name + " on rune outside the modelled alphabet"))
			}
			return ex.st.Or(disj...), nil
		}
	}
	upred("unicode.IsSpace", unicode.IsSpace)
	upred("unicode.IsLetter", unicode.IsLetter)
	upred("unicode.IsDigit", unicode.IsDigit)
	t["strconv.ParseInt"] = stubParseInt
	t["strconv.Itoa"] = func(ex *Exec, st *State, fr *Frame, args []Value, in ssa.Instruction) (Value, *forkReq) {
		t := args[0].(*smt.Term)
		return ex.normStr([]StrAlt{{P: []Piece{{Dec: ex.st.Resize(t, 64, true), Signed: true}}}}), nil
	}
	// sync.Mutex in a sequential harness: the lock word is tracked so that a
	// second Lock of a held mutex (a self-deadlock, or contention between
	// coroutines) is reported instead of being silently passed
	lockWord := func(ex *Exec, st *State, args []Value) (*Ptr, *smt.Term) {
		p := args[0].(*Ptr)
		fp := &Ptr{Obj: p.Obj, Path: append(append([]PathElem(nil), p.Path...), PathElem{Field: 0})}
		w, ok := ex.load(st, fp).(*smt.Term)
		if !ok || !w.IsConst() {
			panic(unsupported("mutex with symbolic state"))
		}
		return fp, w
	}
	setWord := func(ex *Exec, st *State, fp *Ptr, v uint64, w int) {
		// not a data write: bypass the shared-state accounting of store
		st.Heap[fp.Obj] = ex.navStore(st.Heap[fp.Obj], fp.Path, ex.st.BV(v, w))
	}
	// sync.Map in a sequential harness: an association list kept in a heap
	// object whose id is stashed in the struct's last (int) field. Keys are
	// compared with Go's interface equality; a lookup whose outcome depends
	// on symbolic data is unsupported. Store counts as a shared-state write
	// when the map is (reachable from) a package-level variable.
	syncMapContent := func(ex *Exec, st *State, args []Value, create bool) (*Ptr, int, *MapContent) {
		p := args[0].(*Ptr)
		sv := ex.load(st, p).(*StructV)
		last := len(sv.Fields) - 1
		fp := &Ptr{Obj: p.Obj, Path: append(append([]PathElem(nil), p.Path...), PathElem{Field: last})}
		w, ok := sv.Fields[last].(*smt.Term)
		if !ok || !w.IsConst() {
			panic(unsupported("sync.Map with merged state"))
		}
		id := int(w.Val)
		if id == 0 {
			if !create {
				return fp, 0, &MapContent{}
			}
			id = ex.newObj(st, &MapContent{})
			st.Heap[fp.Obj] = ex.navStore(st.Heap[fp.Obj], fp.Path, ex.st.BV(uint64(id), w.W))
		}
		return fp, id, st.Heap[id].(*MapContent)
	}
	syncMapFind := func(ex *Exec, st *State, mc *MapContent, key Value) int {
		idx, conds := ex.mapFind(st, mc, key)
		if idx >= 0 {
			return idx
		}
		for _, c := range conds {
			if !c.IsFalse() {
				panic(unsupported("sync.Map lookup with a symbolic key"))
			}
		}
		return -1
	}
	t["(*sync.Map).Load"] = func(ex *Exec, st *State, fr *Frame, args []Value, in ssa.Instruction) (Value, *forkReq) {
		_, _, mc := syncMapContent(ex, st, args, false)
		if i := syncMapFind(ex, st, mc, args[1]); i >= 0 {
			return &TupleV{[]Value{mc.Vals[i], ex.st.True}}, nil
		}
		return &TupleV{[]Value{&IfaceV{}, ex.st.False}}, nil
	}
	syncMapStore := func(ex *Exec, st *State, args []Value) {
		p := args[0].(*Ptr)
		if p.Obj < 0 || (p.Obj <= ex.initObjMax && !ex.inInit) {
			st.SharedWrites = append(st.SharedWrites, "sync.Map behind a package-level variable")
		}
		_, id, mc := syncMapContent(ex, st, args, true)
		if i := syncMapFind(ex, st, mc, args[1]); i >= 0 {
			nv := append([]Value(nil), mc.Vals...)
			nv[i] = args[2]
			st.Heap[id] = &MapContent{mc.Keys, nv}
			return
		}
		st.Heap[id] = &MapContent{append(append([]Value(nil), mc.Keys...), args[1]), append(append([]Value(nil), mc.Vals...), args[2])}
	}
	t["(*sync.Map).Store"] = func(ex *Exec, st *State, fr *Frame, args []Value, in ssa.Instruction) (Value, *forkReq) {
		syncMapStore(ex, st, args)
		return nil, nil
	}
	t["(*sync.Map).LoadOrStore"] = func(ex *Exec, st *State, fr *Frame, args []Value, in ssa.Instruction) (Value, *forkReq) {
		_, _, mc := syncMapContent(ex, st, args, false)
		if i := syncMapFind(ex, st, mc, args[1]); i >= 0 {
			return &TupleV{[]Value{mc.Vals[i], ex.st.True}}, nil
		}
		syncMapStore(ex, st, args)
		return &TupleV{[]Value{args[2], ex.st.False}}, nil
	}
	for _, typ := range []string{"sync.Mutex", "sync.RWMutex"} {
		for _, m := range []string{"Lock", "RLock"} {
			t["(*"+typ+")."+m] = func(ex *Exec, st *State, fr *Frame, args []Value, in ssa.Instruction) (Value, *forkReq) {
				if _, isRW := ex.load(st, args[0].(*Ptr)).(*StructV).Fields[0].(*StructV); isRW {
					return nil, nil // RWMutex: first field is the embedded Mutex; treated as uncontended
				}
				fp, w := lockWord(ex, st, args)
				if w.Val != 0 {
					panic(unsupported("Lock of a held mutex (contention is outside the sequential model)"))
				}
				setWord(ex, st, fp, 1, w.W)
				return nil, nil
			}
		}
		for _, m := range []string{"Unlock", "RUnlock"} {
			t["(*"+typ+")."+m] = func(ex *Exec, st *State, fr *Frame, args []Value, in ssa.Instruction) (Value, *forkReq) {
				if _, isRW := ex.load(st, args[0].(*Ptr)).(*StructV).Fields[0].(*StructV); isRW {
					return nil, nil
				}
				fp, w := lockWord(ex, st, args)
				setWord(ex, st, fp, 0, w.W)
				return nil, nil
			}
		}
	}
	ex.initIOStubs()
	ex.initCLIStubs()
}

func (ex *Exec) strPred2(s *StrV, what, b string, f func(a, b string) bool) *smt.Term {
	var trues []*smt.Term
	for _, a := range s.Alts {
		l, ok := a.lit()
		if !ok {
			// ropes: decide on literal pieces when the pattern cannot occur inside numerals
			switch what {
			case "strings.Contains":
				if !containsDigitOrMinus(b) {
					hit := false
					for _, p := range a.P {
						if p.isLit() && strings.Contains(p.Lit, b) {
							hit = true
						}
					}
					if hit {
						trues = append(trues, ex.guard(a.G))
					}
					continue
				}
			case "strings.HasPrefix":
				if len(a.P) > 0 && a.P[0].isLit() && (len(a.P[0].Lit) >= len(b) || !strings.HasPrefix(b, a.P[0].Lit)) {
					if strings.HasPrefix(a.P[0].Lit, b) {
						trues = append(trues, ex.guard(a.G))
					}
					continue
				}
				if len(a.P) > 0 && !a.P[0].isLit() && len(b) > 0 && !isDigitOrMinus(b[0]) {
					continue
				}
			}
			panic(unsupported(what + " on rope " + piecesString(a.P)))
		}
		if f(l, b) {
			trues = append(trues, ex.guard(a.G))
		}
	}
	return ex.st.Or(trues...)
}

func containsDigitOrMinus(s string) bool {
	for i := 0; i < len(s); i++ {
		if isDigitOrMinus(s[i]) {
			return true
		}
	}
	return false
}

func (ex *Exec) strTrimSpace(s *StrV) *StrV {
	var alts []StrAlt
	for _, a := range s.Alts {
		ps := append([]Piece(nil), a.P...)
		// trim leading
		for len(ps) > 0 && ps[0].isLit() {
			t := strings.TrimLeftFunc(ps[0].Lit, unicode.IsSpace)
			if t == "" {
				ps = ps[1:]
				continue
			}
			ps[0] = Piece{Lit: t}
			break
		}
		for len(ps) > 0 && ps[len(ps)-1].isLit() {
			t := strings.TrimRightFunc(ps[len(ps)-1].Lit, unicode.IsSpace)
			if t == "" {
				ps = ps[:len(ps)-1]
				continue
			}
			ps[len(ps)-1] = Piece{Lit: t}
			break
		}
		for _, p := range ps {
			if p.Rune != nil {
				panic(unsupported("TrimSpace on rope with symbolic runes"))
			}
		}
		alts = append(alts, StrAlt{G: a.G, P: ps})
	}
	return ex.normStr(alts)
}

// ropeFields splits a rope at runs of white space inside literal pieces;
// numerals are atoms without white space.
func ropeFields(ps []Piece) [][]Piece {
	var out [][]Piece
	var cur []Piece
	flush := func() {
		if len(cur) > 0 {
			out = append(out, normPieces(cur))
			cur = nil
		}
	}
	for _, p := range ps {
		if !p.isLit() {
			cur = append(cur, p)
			continue
		}
		start := -1
		for i, r := range p.Lit {
			if unicode.IsSpace(r) {
				if start >= 0 {
					cur = append(cur, Piece{Lit: p.Lit[start:i]})
					start = -1
				}
				flush()
			} else if start < 0 {
				start = i
			}
		}
		if start >= 0 {
			cur = append(cur, Piece{Lit: p.Lit[start:]})
		}
	}
	flush()
	return out
}

func ropeSplit(ps []Piece, sep string) [][]Piece {
	if containsDigitOrMinus(sep) {
		panic(unsupported("Split with numeric separator on rope"))
	}
	var out [][]Piece
	var cur []Piece
	for _, p := range ps {
		if !p.isLit() {
			cur = append(cur, p)
			continue
		}
		parts := strings.Split(p.Lit, sep)
		for i, part := range parts {
			if i > 0 {
				out = append(out, normPieces(cur))
				cur = nil
			}
			cur = append(cur, Piece{Lit: part})
		}
	}
	out = append(out, normPieces(cur))
	return out
}

// strSplitLike applies a rope splitter to a symbolic string. When the
// alternatives give different shapes the state is split on the string.
func (ex *Exec) strSplitLike(st *State, fr *Frame, in ssa.Instruction, s *StrV, f func([]Piece) [][]Piece) (Value, *forkReq) {
	for _, a := range s.Alts {
		for _, p := range a.P {
			if p.Rune != nil {
				panic(unsupported("split of rope with symbolic runes"))
			}
		}
	}
	if len(s.Alts) > 1 {
		// group alternatives by number of fields; if all agree, build field-wise strings
		var shapes [][][]Piece
		n := -1
		same := true
		for _, a := range s.Alts {
			fs := f(a.P)
			shapes = append(shapes, fs)
			if n < 0 {
				n = len(fs)
			} else if n != len(fs) {
				same = false
			}
		}
		if !same {
			call := in.(ssa.CallInstruction).Common()
			return nil, ex.splitStr(st, fr, call.Args[0], s)
		}
		elems := make([]Value, n)
		for i := 0; i < n; i++ {
			var alts []StrAlt
			for k, a := range s.Alts {
				alts = append(alts, StrAlt{G: a.G, P: shapes[k][i]})
			}
			elems[i] = ex.normStr(alts)
		}
		return ex.newSlice(st, elems, len(elems), concStr("")), nil
	}
	fs := f(s.Alts[0].P)
	elems := make([]Value, len(fs))
	for i, p := range fs {
		elems[i] = ex.normStr([]StrAlt{{P: p}})
	}
	return ex.newSlice(st, elems, len(elems), concStr("")), nil
}

// ---- fmt.Sprintf as a rope builder ----

func stubSprintf(ex *Exec, st *State, fr *Frame, args []Value, in ssa.Instruction) (Value, *forkReq) {
	format, ok := args[0].(*StrV).Concrete()
	if !ok {
		panic(unsupported("Sprintf with symbolic format"))
	}
	var vargs []Value
	if sl, ok := args[1].(*SliceV); ok {
		vargs = ex.sliceElems(st, sl)
	}
	res := concStr("")
	ai := 0
	i := 0
	for i < len(format) {
		c := format[i]
		if c != '%' {
			j := strings.IndexByte(format[i:], '%')
			if j < 0 {
				j = len(format) - i
			}
			res = ex.strConcat(res, concStr(format[i:i+j]))
			i += j
			continue
		}
		i++
		if i < len(format) && format[i] == '%' {
			res = ex.strConcat(res, concStr("%"))
			i++
			continue
		}
		left := false
		zero := false
		for i < len(format) && (format[i] == '-' || format[i] == '0') {
			if format[i] == '-' {
				left = true
			} else {
				zero = true
			}
			i++
		}
		width := 0
		for i < len(format) && format[i] >= '0' && format[i] <= '9' {
			width = width*10 + int(format[i]-'0')
			i++
		}
		if i >= len(format) {
			panic(unsupported("bad format " + format))
		}
		verb := format[i]
		i++
		if ai >= len(vargs) {
			panic(unsupported("Sprintf: missing argument"))
		}
		arg := vargs[ai].(*IfaceV)
		ai++
		piece := ex.formatArg(st, arg, verb)
		piece = ex.pad(piece, width, left, zero)
		res = ex.strConcat(res, piece)
	}
	return res, nil
}

// formatArg renders one Sprintf operand as a string value.
func (ex *Exec) formatArg(st *State, arg *IfaceV, verb byte) *StrV {
	if arg.Typ == nil {
		return concStr("%!" + string(verb) + "(<nil>)")
	}
	switch verb {
	case 'd':
		t, ok := arg.Val.(*smt.Term)
		if !ok || t.W == 0 {
			panic(unsupported("%d of non-integer"))
		}
		signed := isSigned(arg.Typ)
		t64 := ex.st.Resize(t, 64, signed)
		return ex.normStr([]StrAlt{{P: []Piece{{Dec: t64, Signed: signed}}}})
	case 's', 'v':
		if _, ok := arg.Val.(*OpaqueErr); ok {
			return concStr("<error>")
		}
		// Stringer?
		if ms := ex.Prog.MethodSets.MethodSet(arg.Typ); ms != nil {
			if sel := ms.Lookup(nil, "String"); sel != nil {
				if fn := ex.Prog.MethodValue(sel); fn != nil {
					r := ex.callNested(st, fn, []Value{arg.Val}, nil)
					return r.(*StrV)
				}
			}
			if sel := ms.Lookup(nil, "Error"); sel != nil {
				return concStr("<error>")
			}
		}
		if s, ok := arg.Val.(*StrV); ok {
			return s
		}
		if t, ok := arg.Val.(*smt.Term); ok && t.W > 0 && verb == 'v' {
			signed := isSigned(arg.Typ)
			return ex.normStr([]StrAlt{{P: []Piece{{Dec: ex.st.Resize(t, 64, signed), Signed: signed}}}})
		}
		panic(unsupported(fmt.Sprintf("%%%c of %s", verb, arg.Typ)))
	case 'c':
		t := arg.Val.(*smt.Term)
		return ex.normStr([]StrAlt{{P: []Piece{{Rune: ex.st.Resize(t, 32, false)}}}})
	}
	panic(unsupported("Sprintf verb %" + string(verb)))
}

// pad applies a minimum field width.
func (ex *Exec) pad(s *StrV, width int, left, zero bool) *StrV {
	if width == 0 {
		return s
	}
	if zero {
		panic(unsupported("zero padding"))
	}
	var alts []StrAlt
	for _, a := range s.Alts {
		if l, ok := a.lit(); ok {
			n := width - len([]rune(l))
			if n > 0 {
				if left {
					l = l + strings.Repeat(" ", n)
				} else {
					l = strings.Repeat(" ", n) + l
				}
			}
			alts = append(alts, StrAlt{G: a.G, P: []Piece{{Lit: l}}})
			continue
		}
		if len(a.P) == 1 && a.P[0].Dec != nil {
			// split by rendered length
			p := a.P[0]
			dl := ex.decLen(p.Dec, p.Signed)
			covered := ex.st.False
			for n := 1; n < width; n++ {
				g := ex.st.Eq(dl, ex.st.BV(uint64(n), 64))
				covered = ex.st.Or(covered, g)
				sp := strings.Repeat(" ", width-n)
				var ps []Piece
				if left {
					ps = []Piece{p, {Lit: sp}}
				} else {
					ps = []Piece{{Lit: sp}, p}
				}
				alts = append(alts, StrAlt{G: ex.st.And(ex.guard(a.G), g), P: ps})
			}
			alts = append(alts, StrAlt{G: ex.st.And(ex.guard(a.G), ex.st.Not(covered)), P: []Piece{p}})
			continue
		}
		panic(unsupported("width on rope " + piecesString(a.P)))
	}
	return ex.normStr(alts)
}

// ---- strconv.ParseInt ----

func stubParseInt(ex *Exec, st *State, fr *Frame, args []Value, in ssa.Instruction) (Value, *forkReq) {
	s := args[0].(*StrV)
	base, ok1 := ex.constInt(args[1])
	bits, ok2 := ex.constInt(args[2])
	if !ok1 || !ok2 || base != 10 {
		panic(unsupported("ParseInt base/bits"))
	}
	if bits == 0 {
		bits = 64
	}
	// classify alternatives: value term + error condition
	type res struct {
		g   *smt.Term
		val *smt.Term
		err *smt.Term
	}
	var rs []res
	for _, a := range s.Alts {
		g := ex.guard(a.G)
		if l, ok := a.lit(); ok {
			v, err := strconv.ParseInt(l, 10, bits)
			// Go returns the clamped value together with the error
			rs = append(rs, res{g, ex.st.BV(uint64(v), 64), ex.st.Bool(err != nil)})
			continue
		}
		ps := a.P
		// optional leading "-" or "+" literal followed by one unsigned numeral, or a single signed numeral
		if len(ps) == 1 && ps[0].Dec != nil {
			t := ps[0].Dec
			if ps[0].Signed {
				rs = append(rs, res{g, t, ex.rangeErr(t, bits, true)})
			} else {
				// unsigned numeral parsed as signed: must fit
				rs = append(rs, res{g, t, ex.rangeErrU(t, bits, false)})
			}
			continue
		}
		if len(ps) == 2 && ps[0].isLit() && (ps[0].Lit == "-" || ps[0].Lit == "+") && ps[1].Dec != nil {
			t := ps[1].Dec
			if ps[1].Signed {
				// "-" followed by a possibly negative numeral: "--5" is a syntax error
				neg := ex.st.SLt(t, ex.st.BV(0, 64))
				val := t
				if ps[0].Lit == "-" {
					val = ex.st.Neg(t)
				}
				rs = append(rs, res{g, val, ex.st.Or(neg, ex.rangeErr(val, bits, true))})
			} else {
				if ps[0].Lit == "-" {
					rs = append(rs, res{g, ex.st.Neg(t), ex.rangeErrU(t, bits, true)})
				} else {
					rs = append(rs, res{g, t, ex.rangeErrU(t, bits, false)})
				}
			}
			continue
		}
		// anything else containing a numeral and other text is a syntax error
		// only if the other text is non-numeric
		bad := false
		for _, p := range ps {
			if p.isLit() && !allDigits(p.Lit) {
				bad = true
			}
			if p.Rune != nil {
				panic(unsupported("ParseInt on rope with runes"))
			}
		}
		if bad {
			rs = append(rs, res{g, ex.st.BV(0, 64), ex.st.True})
			continue
		}
		panic(unsupported("ParseInt on rope " + piecesString(ps)))
	}
	// errors and values differ per alternative: if any alternative may err, fork on error-ness
	errCond := ex.st.False
	var val *smt.Term
	for i := len(rs) - 1; i >= 0; i-- {
		errCond = ex.st.Or(errCond, ex.st.And(rs[i].g, rs[i].err))
		if val == nil {
			val = rs[i].val
		} else {
			val = ex.st.Ite(rs[i].g, rs[i].val, val)
		}
	}
	if errCond.IsFalse() {
		return &TupleV{[]Value{val, &IfaceV{}}}, nil
	}
	if errCond.IsTrue() {
		return &TupleV{[]Value{val, ex.newErr(concStr("<parse error>"))}}, nil
	}
	dst := in.(ssa.Value)
	return nil, ex.splitConds(st, fr, in, []*smt.Term{errCond}, func(ch *State, i int) {
		cf := ch.top()
		if i == 0 {
			cf.Env[dst] = &TupleV{[]Value{val, ex.newErr(concStr("<parse error>"))}}
		} else {
			cf.Env[dst] = &TupleV{[]Value{val, &IfaceV{}}}
		}
		cf.IP++
	})
}

func allDigits(s string) bool {
	for i := 0; i < len(s); i++ {
		if s[i] < '0' || s[i] > '9' {
			return false
		}
	}
	return true
}

// rangeErr: signed 64-bit value t does not fit in `bits` bits.
func (ex *Exec) rangeErr(t *smt.Term, bits int, signed bool) *smt.Term {
	if bits >= 64 {
		return ex.st.False
	}
	lo := ex.st.BV(uint64(-(int64(1) << uint(bits-1))), 64)
	hi := ex.st.BV(uint64((int64(1)<<uint(bits-1))-1), 64)
	return ex.st.Or(ex.st.SLt(t, lo), ex.st.SLt(hi, t))
}

// rangeErrU: unsigned magnitude t (to be negated when neg) does not fit.
func (ex *Exec) rangeErrU(t *smt.Term, bits int, neg bool) *smt.Term {
	lim := uint64(1) << uint(bits-1)
	if neg {
		return ex.st.ULt(ex.st.BV(lim, 64), t)
	}
	return ex.st.ULe(ex.st.BV(lim, 64), t)
}
