// Package sym: symbolic executor for go/ssa producing SMT terms.
package sym

import (
	"fmt"
	"go/types"
	"strings"

	"golang.org/x/tools/go/ssa"

	"verif/engine/smt"
)

// Value is one of:
//
//	*smt.Term   bool / integer scalar
//	*StructV    struct value
//	*ArrayV     array value (also backing store of slices)
//	*Ptr        pointer (Obj==0: nil)
//	*SliceV     slice header (concrete shape)
//	*StrV       string (guarded set of ropes)
//	*IfaceV     interface value (Typ==nil: nil interface)
//	*FuncV      function value / closure (Fn==nil: nil func)
//	*MapV       map reference (Obj==0: nil map)
//	*ChanV      channel reference
//	*TupleV     multiple results
//	*MapIterV   range iterator
type Value interface{}

type StructV struct{ Fields []Value }
type ArrayV struct{ Elems []Value }
type TupleV struct{ Elems []Value }

type PathElem struct {
	Field int       // >=0: struct field; -1: index
	Index *smt.Term // 64-bit index when Field == -1
}

type Ptr struct {
	Obj  int
	Path []PathElem
}

type SliceV struct {
	Obj           int // object holding an *ArrayV
	Off, Len, Cap int
}

type IfaceV struct {
	Typ types.Type
	Val Value
}

type FuncV struct {
	Fn       *ssa.Function
	Bindings []Value
	Builtin  string // for bound builtins / intrinsics used as values
}

type MapV struct{ Obj int }
type ChanV struct{ Obj int }

type MapContent struct {
	Keys []Value
	Vals []Value
}

type ChanContent struct {
	Closed bool
	// unbuffered rendezvous only
}

type MapIterV struct {
	Obj   int
	Order []int // iteration order over entry indices (snapshot at Range)
	Pos   int
	IsStr bool
	Str   string // range over concrete string
}

// OpaqueErr is the dynamic value of errors created by fmt.Errorf/errors.New.
type OpaqueErr struct{ Msg *StrV }

func (p *Ptr) IsNil() bool { return p.Obj == 0 }

func widthOf(t types.Type) int {
	switch b := t.Underlying().(type) {
	case *types.Basic:
		switch b.Kind() {
		case types.Bool, types.UntypedBool:
			return 0
		case types.Int8, types.Uint8:
			return 8
		case types.Int16, types.Uint16:
			return 16
		case types.Int32, types.Uint32, types.UntypedRune:
			return 32
		case types.Int, types.Uint, types.Int64, types.Uint64, types.Uintptr, types.UntypedInt:
			return 64
		}
	}
	return -1
}

func isSigned(t types.Type) bool {
	if b, ok := t.Underlying().(*types.Basic); ok {
		return b.Info()&types.IsInteger != 0 && b.Info()&types.IsUnsigned == 0
	}
	return false
}

func isString(t types.Type) bool {
	if b, ok := t.Underlying().(*types.Basic); ok {
		return b.Info()&types.IsString != 0
	}
	return false
}

func (ex *Exec) zero(t types.Type) Value {
	switch u := t.Underlying().(type) {
	case *types.Basic:
		if u.Info()&types.IsString != 0 {
			return concStr("")
		}
		w := widthOf(t)
		if w == 0 {
			return ex.st.False
		}
		if w > 0 {
			return ex.st.BV(0, w)
		}
		if u.Kind() == types.UnsafePointer {
			return &Ptr{}
		}
		if u.Kind() == types.UntypedNil {
			return &Ptr{}
		}
		panic(unsupported("zero value of basic type " + t.String()))
	case *types.Struct:
		f := make([]Value, u.NumFields())
		for i := range f {
			f[i] = ex.zero(u.Field(i).Type())
		}
		return &StructV{f}
	case *types.Array:
		n := int(u.Len())
		e := make([]Value, n)
		z := ex.zero(u.Elem())
		for i := range e {
			e[i] = z
		}
		return &ArrayV{e}
	case *types.Pointer:
		return &Ptr{}
	case *types.Slice:
		return &SliceV{}
	case *types.Interface:
		return &IfaceV{}
	case *types.Signature:
		return &FuncV{}
	case *types.Map:
		return &MapV{}
	case *types.Chan:
		return &ChanV{}
	case *types.Tuple:
		e := make([]Value, u.Len())
		for i := range e {
			e[i] = ex.zero(u.At(i).Type())
		}
		return &TupleV{e}
	}
	panic(unsupported("zero value of type " + t.String()))
}

type Unsupported struct{ Msg string }

func (u *Unsupported) Error() string { return "unsupported: " + u.Msg }
func unsupported(msg string) *Unsupported {
	return &Unsupported{msg}
}

// mergeVal builds ite(c, a, b) structurally; ok=false when the two values
// cannot be joined into one value.
func (ex *Exec) mergeVal(c *smt.Term, a, b Value) (Value, bool) {
	if a == b {
		return a, true
	}
	switch x := a.(type) {
	case *smt.Term:
		y, ok := b.(*smt.Term)
		if !ok || x.W != y.W {
			return nil, false
		}
		return ex.st.Ite(c, x, y), true
	case *StructV:
		y, ok := b.(*StructV)
		if !ok || len(x.Fields) != len(y.Fields) {
			return nil, false
		}
		var out []Value
		for i := range x.Fields {
			if x.Fields[i] == y.Fields[i] {
				continue
			}
			m, ok := ex.mergeVal(c, x.Fields[i], y.Fields[i])
			if !ok {
				return nil, false
			}
			if out == nil {
				out = append([]Value(nil), x.Fields...)
			}
			out[i] = m
		}
		if out == nil {
			return x, true
		}
		return &StructV{out}, true
	case *ArrayV:
		y, ok := b.(*ArrayV)
		if !ok || len(x.Elems) != len(y.Elems) {
			return nil, false
		}
		var out []Value
		for i := range x.Elems {
			if x.Elems[i] == y.Elems[i] {
				continue
			}
			m, ok := ex.mergeVal(c, x.Elems[i], y.Elems[i])
			if !ok {
				return nil, false
			}
			if out == nil {
				out = append([]Value(nil), x.Elems...)
			}
			out[i] = m
		}
		if out == nil {
			return x, true
		}
		return &ArrayV{out}, true
	case *TupleV:
		y, ok := b.(*TupleV)
		if !ok || len(x.Elems) != len(y.Elems) {
			return nil, false
		}
		out := make([]Value, len(x.Elems))
		for i := range x.Elems {
			m, ok := ex.mergeVal(c, x.Elems[i], y.Elems[i])
			if !ok {
				return nil, false
			}
			out[i] = m
		}
		return &TupleV{out}, true
	case *Ptr:
		y, ok := b.(*Ptr)
		if !ok || x.Obj != y.Obj || len(x.Path) != len(y.Path) {
			return nil, false
		}
		out := make([]PathElem, len(x.Path))
		for i := range x.Path {
			if x.Path[i].Field != y.Path[i].Field {
				return nil, false
			}
			out[i] = x.Path[i]
			if x.Path[i].Field == -1 {
				out[i].Index = ex.st.Ite(c, x.Path[i].Index, y.Path[i].Index)
			}
		}
		return &Ptr{x.Obj, out}, true
	case *SliceV:
		y, ok := b.(*SliceV)
		if !ok || *x != *y {
			return nil, false
		}
		return x, true
	case *StrV:
		y, ok := b.(*StrV)
		if !ok {
			return nil, false
		}
		return ex.mergeStr(c, x, y), true
	case *IfaceV:
		y, ok := b.(*IfaceV)
		if !ok {
			return nil, false
		}
		if x.Typ == nil && y.Typ == nil {
			return x, true
		}
		if x.Typ == nil || y.Typ == nil || !types.Identical(x.Typ, y.Typ) {
			return nil, false
		}
		m, ok := ex.mergeVal(c, x.Val, y.Val)
		if !ok {
			return nil, false
		}
		return &IfaceV{x.Typ, m}, true
	case *FuncV:
		y, ok := b.(*FuncV)
		if !ok || x.Fn != y.Fn || x.Builtin != y.Builtin || len(x.Bindings) != len(y.Bindings) {
			return nil, false
		}
		for i := range x.Bindings {
			m, ok := ex.mergeVal(c, x.Bindings[i], y.Bindings[i])
			if !ok || m != x.Bindings[i] {
				return nil, false
			}
		}
		return x, true
	case *MapV:
		y, ok := b.(*MapV)
		if !ok || x.Obj != y.Obj {
			return nil, false
		}
		return x, true
	case *ChanV:
		y, ok := b.(*ChanV)
		if !ok || x.Obj != y.Obj {
			return nil, false
		}
		return x, true
	case *MapContent:
		y, ok := b.(*MapContent)
		if !ok || len(x.Keys) != len(y.Keys) {
			return nil, false
		}
		out := &MapContent{Keys: x.Keys, Vals: make([]Value, len(x.Vals))}
		for i := range x.Keys {
			if !ex.sameConcrete(x.Keys[i], y.Keys[i]) {
				return nil, false
			}
			m, ok := ex.mergeVal(c, x.Vals[i], y.Vals[i])
			if !ok {
				return nil, false
			}
			out.Vals[i] = m
		}
		return out, true
	case *ChanContent:
		y, ok := b.(*ChanContent)
		if !ok || *x != *y {
			return nil, false
		}
		return x, true
	case *MapIterV:
		y, ok := b.(*MapIterV)
		if !ok || x.Obj != y.Obj || x.Pos != y.Pos || len(x.Order) != len(y.Order) || x.Str != y.Str {
			return nil, false
		}
		for i := range x.Order {
			if x.Order[i] != y.Order[i] {
				return nil, false
			}
		}
		return x, true
	case *OpaqueErr:
		_, ok := b.(*OpaqueErr)
		if !ok {
			return nil, false
		}
		return x, true
	case nil:
		return nil, b == nil
	}
	return nil, false
}

// sameConcrete reports whether two values are syntactically the same
// concrete value (used for map keys).
func (ex *Exec) sameConcrete(a, b Value) bool {
	if a == b {
		return true
	}
	switch x := a.(type) {
	case *smt.Term:
		y, ok := b.(*smt.Term)
		return ok && x == y
	case *StrV:
		y, ok := b.(*StrV)
		if !ok {
			return false
		}
		xs, ok1 := x.Concrete()
		ys, ok2 := y.Concrete()
		return ok1 && ok2 && xs == ys
	}
	return false
}

func valString(v Value) string {
	switch x := v.(type) {
	case *smt.Term:
		return x.String()
	case *StructV:
		var parts []string
		for _, f := range x.Fields {
			parts = append(parts, valString(f))
		}
		return "{" + strings.Join(parts, ", ") + "}"
	case *ArrayV:
		var parts []string
		for _, f := range x.Elems {
			parts = append(parts, valString(f))
		}
		return "[" + strings.Join(parts, ", ") + "]"
	case *TupleV:
		var parts []string
		for _, f := range x.Elems {
			parts = append(parts, valString(f))
		}
		return "(" + strings.Join(parts, ", ") + ")"
	case *Ptr:
		if x.Obj == 0 {
			return "nil"
		}
		return fmt.Sprintf("&obj%d%v", x.Obj, x.Path)
	case *SliceV:
		return fmt.Sprintf("slice(obj%d,%d,%d,%d)", x.Obj, x.Off, x.Len, x.Cap)
	case *StrV:
		return x.String()
	case *IfaceV:
		if x.Typ == nil {
			return "nil-iface"
		}
		return fmt.Sprintf("iface(%s,%s)", x.Typ, valString(x.Val))
	case *FuncV:
		if x.Fn == nil {
			return "func(" + x.Builtin + ")"
		}
		return "func(" + x.Fn.String() + ")"
	case nil:
		return "<nil>"
	}
	return fmt.Sprintf("%T", v)
}
