package sym

import (
	"fmt"
	gtoken "go/token"
	"go/types"
	"strings"
	"unicode/utf8"

	"golang.org/x/tools/go/ssa"

	"verif/engine/smt"
)

// ReaderV is the content of a reader object: remaining text as rope pieces
// (a single alternative), or a tape of symbolic runes.
type ReaderV struct {
	Pieces []Piece
	Tape   []*smt.Term
	IsTape bool
	AtEOF  bool
}

var readerType = types.NewNamed(types.NewTypeName(0, nil, "modelReader", nil), types.NewStruct(nil, nil), nil)
var evalValueType = types.NewNamed(types.NewTypeName(0, nil, "modelConstantValue", nil), types.NewStruct(nil, nil), nil)
var eofErr = &OpaqueErr{Msg: concStr("EOF")}

func (ex *Exec) eofIface() Value { return &IfaceV{Typ: opaqueErrType, Val: eofErr} }

func (ex *Exec) initIOStubs() {
	t := ex.StubTable
	t["strings.NewReader"] = func(ex *Exec, st *State, fr *Frame, args []Value, in ssa.Instruction) (Value, *forkReq) {
		s := args[0].(*StrV)
		if len(s.Alts) > 1 {
			call := in.(ssa.CallInstruction).Common()
			return nil, ex.splitStr(st, fr, call.Args[0], s)
		}
		obj := ex.newObj(st, &ReaderV{Pieces: s.Alts[0].P})
		return &Ptr{Obj: obj}, nil
	}
	t["bufio.NewReader"] = func(ex *Exec, st *State, fr *Frame, args []Value, in ssa.Instruction) (Value, *forkReq) {
		r := args[0].(*IfaceV)
		p, ok := r.Val.(*Ptr)
		if !ok {
			panic(unsupported("bufio.NewReader on unmodelled reader"))
		}
		if _, ok := st.Heap[p.Obj].(*ReaderV); !ok {
			panic(unsupported("bufio.NewReader on unmodelled reader"))
		}
		return p, nil
	}
	t["(*bufio.Reader).ReadRune"] = stubReadRune
	t["(*bufio.Reader).ReadString"] = stubReadString
	t["go/token.NewFileSet"] = func(ex *Exec, st *State, fr *Frame, args []Value, in ssa.Instruction) (Value, *forkReq) {
		return &Ptr{}, nil
	}
	t["go/types.Eval"] = stubEval
}

// vRuneReader(name, n): a reader over n symbolic runes (ASCII, U+00E9, U+0663 or U+FFFD).
func init() {
	intrinsics["vRuneReader"] = func(ex *Exec, st *State, fr *Frame, args []Value, in ssa.Instruction) (Value, *forkReq) {
		name := mustStr(args[0], "vRuneReader")
		n, ok := ex.constInt(args[1])
		if !ok {
			panic(unsupported("vRuneReader: constant length expected"))
		}
		rv := &ReaderV{IsTape: true}
		for i := 0; i < n; i++ {
			full, k := ex.freshName(st, name)
			t := ex.st.Var(full, 32)
			st.Inputs = append(st.Inputs, Input{Name: name, Idx: k, Term: t})
			// alphabet: ASCII, one non-ASCII letter (U+00E9), one non-ASCII
			// decimal digit (U+0663) and the replacement rune of an invalid byte
			st.addPC(ex.st.Or(ex.st.ULt(t, ex.st.BV(0x80, 32)), ex.st.Eq(t, ex.st.BV(0xE9, 32)), ex.st.Eq(t, ex.st.BV(0x663, 32)), ex.st.Eq(t, ex.st.BV(0xFFFD, 32))))
			rv.Tape = append(rv.Tape, t)
		}
		obj := ex.newObj(st, rv)
		return &IfaceV{Typ: readerType, Val: &Ptr{Obj: obj}}, nil
	}
	// vTokenReader(tokens): an io.Reader whose lexing yields exactly tokens.
	// Natively the tokens are rendered to text; here the reader is empty and
	// the package's next newLexer / (*lexer).Tokens hand the tokens out
	// unchanged (see Exec.pendingTokenCall), so that the caller — the real
	// CompileWarrior — runs from its own first line.
	intrinsics["vTokenReader"] = func(ex *Exec, st *State, fr *Frame, args []Value, in ssa.Instruction) (Value, *forkReq) {
		st.PendingTokens = args[0]
		obj := ex.newObj(st, &ReaderV{})
		return &IfaceV{Typ: readerType, Val: &Ptr{Obj: obj}}, nil
	}
	intrinsics["vTextReader"] = func(ex *Exec, st *State, fr *Frame, args []Value, in ssa.Instruction) (Value, *forkReq) {
		s := args[0].(*StrV)
		if len(s.Alts) > 1 {
			call := in.(ssa.CallInstruction).Common()
			return nil, ex.splitStr(st, fr, call.Args[0], s)
		}
		obj := ex.newObj(st, &ReaderV{Pieces: s.Alts[0].P})
		return &IfaceV{Typ: readerType, Val: &Ptr{Obj: obj}}, nil
	}
}

func stubReadRune(ex *Exec, st *State, fr *Frame, args []Value, in ssa.Instruction) (Value, *forkReq) {
	p := args[0].(*Ptr)
	rv := st.Heap[p.Obj].(*ReaderV)
	s := ex.st
	if rv.IsTape {
		if len(rv.Tape) == 0 {
			return &TupleV{[]Value{s.BV(0, 32), s.BV(0, 64), ex.eofIface()}}, nil
		}
		r := rv.Tape[0]
		st.Heap[p.Obj] = &ReaderV{IsTape: true, Tape: rv.Tape[1:]}
		// one byte for ASCII and for the invalid byte behind U+FFFD, two for U+00E9 and U+0663
		size := s.Ite(s.Or(s.Eq(r, s.BV(0xE9, 32)), s.Eq(r, s.BV(0x663, 32))), s.BV(2, 64), s.BV(1, 64))
		return &TupleV{[]Value{r, size, &IfaceV{}}}, nil
	}
	ps := normPieces(rv.Pieces)
	if len(ps) == 0 {
		return &TupleV{[]Value{s.BV(0, 32), s.BV(0, 64), ex.eofIface()}}, nil
	}
	if !ps[0].isLit() {
		panic(unsupported("ReadRune inside a symbolic numeral"))
	}
	r, size := utf8.DecodeRuneInString(ps[0].Lit)
	rest := append([]Piece{{Lit: ps[0].Lit[size:]}}, ps[1:]...)
	st.Heap[p.Obj] = &ReaderV{Pieces: rest}
	return &TupleV{[]Value{s.BV(uint64(uint32(r)), 32), s.BV(uint64(size), 64), &IfaceV{}}}, nil
}

func stubReadString(ex *Exec, st *State, fr *Frame, args []Value, in ssa.Instruction) (Value, *forkReq) {
	p := args[0].(*Ptr)
	rv := st.Heap[p.Obj].(*ReaderV)
	d := args[1].(*smt.Term)
	if !d.IsConst() || rv.IsTape {
		panic(unsupported("ReadString: delimiter/tape"))
	}
	delim := string(rune(d.Val))
	ps := normPieces(rv.Pieces)
	var line []Piece
	for i, pc := range ps {
		if !pc.isLit() {
			line = append(line, pc)
			continue
		}
		if k := strings.Index(pc.Lit, delim); k >= 0 {
			line = append(line, Piece{Lit: pc.Lit[:k+1]})
			rest := append([]Piece{{Lit: pc.Lit[k+1:]}}, ps[i+1:]...)
			st.Heap[p.Obj] = &ReaderV{Pieces: rest}
			return &TupleV{[]Value{ex.normStr([]StrAlt{{P: line}}), &IfaceV{}}}, nil
		}
		line = append(line, pc)
	}
	// no delimiter: the remaining text together with io.EOF
	st.Heap[p.Obj] = &ReaderV{}
	return &TupleV{[]Value{ex.normStr([]StrAlt{{P: line}}), ex.eofIface()}}, nil
}

// stubEval models go/types.Eval on constant expressions: concrete text is
// evaluated by the real go/types; a rope made of sign literals and one
// numeral is evaluated symbolically.
func stubEval(ex *Exec, st *State, fr *Frame, args []Value, in ssa.Instruction) (Value, *forkReq) {
	expr := args[3].(*StrV)
	if len(expr.Alts) > 1 {
		call := in.(ssa.CallInstruction).Common()
		return nil, ex.splitStr(st, fr, call.Args[3], expr)
	}
	call := in.(ssa.CallInstruction).Common()
	tvType := call.Signature().Results().At(0).Type()
	mk := func(val *StrV) Value {
		tv := ex.zero(tvType).(*StructV)
		nf := append([]Value(nil), tv.Fields...)
		nf[2] = &IfaceV{Typ: evalValueType, Val: val}
		return &StructV{nf}
	}
	a := expr.Alts[0]
	if l, ok := a.lit(); ok {
		fs := gtoken.NewFileSet()
		tv, err := types.Eval(fs, nil, gtoken.NoPos, l)
		if err != nil {
			return &TupleV{[]Value{ex.zero(tvType), ex.newErr(concStr("<eval error>"))}}, nil
		}
		if tv.Value == nil {
			// gmars would dereference a nil constant value
			return &TupleV{[]Value{ex.zero(tvType), &IfaceV{}}}, nil
		}
		return &TupleV{[]Value{mk(concStr(tv.Value.String())), &IfaceV{}}}, nil
	}
	// rope with symbolic numerals: the expression model
	ps := a.P
	val, divZero, synErr, why := ex.evalRope(st, ps)
	if why != "" {
		panic(unsupported("types.Eval: " + why))
	}
	if synErr {
		return &TupleV{[]Value{ex.zero(tvType), ex.newErr(concStr("<eval error>"))}}, nil
	}
	okv := mk(ex.normStr([]StrAlt{{P: []Piece{{Dec: val, Signed: true}}}}))
	if divZero.IsFalse() {
		return &TupleV{[]Value{okv, &IfaceV{}}}, nil
	}
	dst := in.(ssa.Value)
	return nil, ex.splitConds(st, fr, in, []*smt.Term{divZero}, func(ch *State, i int) {
		cf := ch.top()
		if i == 0 {
			cf.Env[dst] = &TupleV{[]Value{ex.zero(tvType), ex.newErr(concStr("<division by zero>"))}}
		} else {
			cf.Env[dst] = &TupleV{[]Value{okv, &IfaceV{}}}
		}
		cf.IP++
	})
}

var _ = fmt.Sprintf
var _ = strings.Contains
