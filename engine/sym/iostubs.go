package sym

func (ex *Exec) initIOStubs() {}
