package main

import (
	"flag"
	"fmt"
	"os"
	"strconv"

	"verif/engine/check"
)

func main() {
	if len(os.Args) < 2 {
		fmt.Println("usage: gosmt check -property Cxx -tier quick|thorough | gosmt replay <file>")
		os.Exit(2)
	}
	switch os.Args[1] {
	case "check":
		fs := flag.NewFlagSet("check", flag.ExitOnError)
		prop := fs.String("property", "", "property id")
		tier := fs.String("tier", "quick", "quick or thorough")
		only := fs.String("harness", "", "run only this harness")
		workers := fs.Int("j", 16, "parallel jobs")
		noreplay := fs.Bool("noreplay", false, "skip native replay (debugging only)")
		verbose := fs.Bool("v", false, "verbose")
		fs.Parse(os.Args[2:])
		if t := os.Getenv("VERIF_TIER"); t != "" && *tier == "" {
			*tier = t
		}
		seed := int64(1)
		if s := os.Getenv("VERIF_SEED"); s != "" {
			if v, err := strconv.ParseInt(s, 10, 64); err == nil {
				seed = v
			}
		}
		os.Exit(check.CheckProperty(check.Options{Property: *prop, Tier: *tier, Seed: seed, Workers: *workers, Only: *only, NoReplay: *noreplay, Verbose: *verbose}))
	case "replay":
		if len(os.Args) < 3 {
			fmt.Println("usage: gosmt replay <file>")
			os.Exit(2)
		}
		os.Exit(check.Replay(os.Args[2]))
	default:
		fmt.Println("unknown command", os.Args[1])
		os.Exit(2)
	}
}
