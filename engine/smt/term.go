// Package smt: hash-consed SMT terms over Bool and fixed-width bit-vectors,
// with constant folding and light algebraic simplification, and an SMT-LIB2
// printer. One TermStore per worker (not thread safe).
package smt

import (
	"fmt"
	"math/bits"
	"sort"
	"strings"
)

type Op uint8

const (
	OpConst Op = iota
	OpVar
	OpNot
	OpAnd
	OpOr
	OpIte
	OpEq
	OpAdd
	OpSub
	OpMul
	OpUDiv
	OpURem
	OpSDiv
	OpSRem
	OpBAnd
	OpBOr
	OpBXor
	OpShl
	OpLShr
	OpAShr
	OpNeg
	OpBNot
	OpULt
	OpULe
	OpSLt
	OpSLe
	OpZExt
	OpSExt
	OpExtract
	OpUF // uninterpreted function application: Name = function name
)

var opNames = map[Op]string{
	OpNot: "not", OpAnd: "and", OpOr: "or", OpIte: "ite", OpEq: "=",
	OpAdd: "bvadd", OpSub: "bvsub", OpMul: "bvmul", OpUDiv: "bvudiv", OpURem: "bvurem",
	OpSDiv: "bvsdiv", OpSRem: "bvsrem", OpBAnd: "bvand", OpBOr: "bvor", OpBXor: "bvxor",
	OpShl: "bvshl", OpLShr: "bvlshr", OpAShr: "bvashr", OpNeg: "bvneg", OpBNot: "bvnot",
	OpULt: "bvult", OpULe: "bvule", OpSLt: "bvslt", OpSLe: "bvsle",
}

// Term is an immutable DAG node. W == 0 means Bool; otherwise a bit-vector of
// width W (1..64).
type Term struct {
	Op   Op
	W    int
	Args []*Term
	Val  uint64 // OpConst: value (bool: 0/1); OpExtract: lo bit
	Name string // OpVar / OpUF
	ID   int
}

func (t *Term) IsBool() bool  { return t.W == 0 }
func (t *Term) IsConst() bool { return t.Op == OpConst }
func (t *Term) IsTrue() bool  { return t.Op == OpConst && t.W == 0 && t.Val == 1 }
func (t *Term) IsFalse() bool { return t.Op == OpConst && t.W == 0 && t.Val == 0 }

type Store struct {
	table   map[string]*Term
	terms   []*Term
	vars    []*Term
	ufs     map[string][]int // name -> arg widths + result width (last)
	ufOrder []string
	True    *Term
	False   *Term
	NoSimp  bool
	facts   map[int][2]uint64
	known   map[int]uint64
	aff     map[int]affine  // term = base + off (no wrap-around considered: used only under % m)
	modprov map[int]ModProv // term = (base + off) mod m
	ivMemo  map[int][2]uint64
	// RemSplit: x % c with x known below 3c becomes compare-and-subtract
	RemSplit bool
	// Narrow: additions, subtractions, comparisons and selections over
	// values the interval analysis bounds are done in 8/16/32 bits
	Narrow bool
}

func NewStore() *Store {
	s := &Store{table: map[string]*Term{}, ufs: map[string][]int{}}
	s.True = s.mk(OpConst, 0, nil, 1, "")
	s.False = s.mk(OpConst, 0, nil, 0, "")
	return s
}

func (s *Store) NumTerms() int { return len(s.terms) }
func (s *Store) Vars() []*Term { return s.vars }

func (s *Store) mk(op Op, w int, args []*Term, val uint64, name string) *Term {
	var sb strings.Builder
	fmt.Fprintf(&sb, "%d|%d|%d|%s", op, w, val, name)
	for _, a := range args {
		fmt.Fprintf(&sb, "|%d", a.ID)
	}
	k := sb.String()
	if t, ok := s.table[k]; ok {
		return t
	}
	t := &Term{Op: op, W: w, Args: args, Val: val, Name: name, ID: len(s.terms)}
	s.table[k] = t
	s.terms = append(s.terms, t)
	if op == OpVar {
		s.vars = append(s.vars, t)
	}
	return t
}

func mask(w int) uint64 {
	if w >= 64 {
		return ^uint64(0)
	}
	return (uint64(1) << uint(w)) - 1
}

func sext(v uint64, w int) int64 {
	if w >= 64 {
		return int64(v)
	}
	sh := uint(64 - w)
	return int64(v<<sh) >> sh
}

func (s *Store) Bool(b bool) *Term {
	if b {
		return s.True
	}
	return s.False
}

func (s *Store) BV(v uint64, w int) *Term {
	if w <= 0 || w > 64 {
		panic(fmt.Sprintf("bad width %d", w))
	}
	return s.mk(OpConst, w, nil, v&mask(w), "")
}

// Var returns the variable with this name (created on first use).
func (s *Store) Var(name string, w int) *Term {
	return s.mk(OpVar, w, nil, 0, name)
}

func (s *Store) Not(a *Term) *Term {
	if a.W != 0 {
		panic("Not on non-bool")
	}
	if a.IsConst() {
		return s.Bool(a.Val == 0)
	}
	if a.Op == OpNot {
		return a.Args[0]
	}
	return s.mk(OpNot, 0, []*Term{a}, 0, "")
}

func (s *Store) nary(op Op, args []*Term) *Term {
	// flatten, dedupe, absorb constants
	unit, zero := s.True, s.False
	if op == OpOr {
		unit, zero = s.False, s.True
	}
	seen := map[int]bool{}
	var out []*Term
	var add func(t *Term) bool
	add = func(t *Term) bool {
		if t.W != 0 {
			panic("bool connective on non-bool")
		}
		if t == unit {
			return true
		}
		if t == zero {
			return false
		}
		if t.Op == op {
			for _, a := range t.Args {
				if !add(a) {
					return false
				}
			}
			return true
		}
		if seen[t.ID] {
			return true
		}
		seen[t.ID] = true
		out = append(out, t)
		return true
	}
	for _, a := range args {
		if !add(a) {
			return zero
		}
	}
	// x and not x
	for _, t := range out {
		if t.Op == OpNot && seen[t.Args[0].ID] {
			return zero
		}
	}
	if len(out) == 0 {
		return unit
	}
	if len(out) == 1 {
		return out[0]
	}
	sort.Slice(out, func(i, j int) bool { return out[i].ID < out[j].ID })
	return s.mk(op, 0, out, 0, "")
}

func (s *Store) And(args ...*Term) *Term { return s.nary(OpAnd, args) }
func (s *Store) Or(args ...*Term) *Term  { return s.nary(OpOr, args) }
func (s *Store) Implies(a, b *Term) *Term {
	return s.Or(s.Not(a), b)
}

func (s *Store) Ite(c, a, b *Term) *Term {
	if c.W != 0 || a.W != b.W {
		panic(fmt.Sprintf("bad ite sorts %d %d %d", c.W, a.W, b.W))
	}
	if c.IsTrue() {
		return a
	}
	if c.IsFalse() {
		return b
	}
	if a == b {
		return a
	}
	if c.Op == OpNot {
		return s.Ite(c.Args[0], b, a)
	}
	if a.W == 0 {
		if a.IsTrue() && b.IsFalse() {
			return c
		}
		if a.IsFalse() && b.IsTrue() {
			return s.Not(c)
		}
		if a.IsTrue() {
			return s.Or(c, b)
		}
		if a.IsFalse() {
			return s.And(s.Not(c), b)
		}
		if b.IsTrue() {
			return s.Or(s.Not(c), a)
		}
		if b.IsFalse() {
			return s.And(c, a)
		}
	}
	// ite(c, x, ite(c, y, z)) = ite(c, x, z) ; ite(c, ite(c,x,y), z) = ite(c,x,z)
	if b.Op == OpIte && b.Args[0] == c {
		return s.Ite(c, a, b.Args[2])
	}
	if a.Op == OpIte && a.Args[0] == c {
		return s.Ite(c, a.Args[1], b)
	}
	if a.W > 8 && !s.NoSimp && s.Narrow && !(a.IsConst() && b.IsConst()) {
		if na, nb, ok := s.narrowPair(a, b); ok {
			return s.ZExt(s.Ite(c, na, nb), a.W)
		}
	}
	return s.mk(OpIte, a.W, []*Term{c, a, b}, 0, "")
}

func (s *Store) Eq(a, b *Term) *Term {
	if a.W != b.W {
		panic(fmt.Sprintf("Eq width mismatch %d %d", a.W, b.W))
	}
	if a == b {
		return s.True
	}
	if a.IsConst() && b.IsConst() {
		return s.Bool(a.Val == b.Val)
	}
	if a.W == 0 {
		if a.IsConst() {
			a, b = b, a
		}
		if b.IsTrue() {
			return a
		}
		if b.IsFalse() {
			return s.Not(a)
		}
	}
	if a.IsConst() {
		a, b = b, a
	}
	// eq(ite(c,k1,k2), k) with constants
	if b.IsConst() && a.Op == OpIte && !s.NoSimp {
		x, y := a.Args[1], a.Args[2]
		if x.IsConst() || y.IsConst() {
			return s.Ite(a.Args[0], s.Eq(x, b), s.Eq(y, b))
		}
	}
	// eq(zext(x), k)
	if b.IsConst() && a.Op == OpZExt {
		x := a.Args[0]
		if b.Val > mask(x.W) {
			return s.False
		}
		return s.Eq(x, s.BV(b.Val, x.W))
	}
	if a.W > 8 && !s.NoSimp {
		if na, nb, ok := s.narrowPair(a, b); ok {
			return s.Eq(na, nb)
		}
	}
	if a.ID > b.ID {
		a, b = b, a
	}
	return s.mk(OpEq, 0, []*Term{a, b}, 0, "")
}

func (s *Store) Ne(a, b *Term) *Term { return s.Not(s.Eq(a, b)) }

func foldBin(op Op, x, y uint64, w int) (uint64, bool) {
	m := mask(w)
	switch op {
	case OpAdd:
		return (x + y) & m, true
	case OpSub:
		return (x - y) & m, true
	case OpMul:
		return (x * y) & m, true
	case OpUDiv:
		if y == 0 {
			return m, true
		}
		return x / y, true
	case OpURem:
		if y == 0 {
			return x, true
		}
		return x % y, true
	case OpSDiv:
		sx, sy := sext(x, w), sext(y, w)
		if sy == 0 {
			if sx >= 0 {
				return m, true
			}
			return 1, true
		}
		if sy == -1 {
			return uint64(-sx) & m, true
		}
		return uint64(sx/sy) & m, true
	case OpSRem:
		sx, sy := sext(x, w), sext(y, w)
		if sy == 0 {
			return x, true
		}
		if sy == -1 {
			return 0, true
		}
		return uint64(sx%sy) & m, true
	case OpBAnd:
		return x & y, true
	case OpBOr:
		return x | y, true
	case OpBXor:
		return x ^ y, true
	case OpShl:
		if y >= uint64(w) {
			return 0, true
		}
		return (x << y) & m, true
	case OpLShr:
		if y >= uint64(w) {
			return 0, true
		}
		return x >> y, true
	case OpAShr:
		sx := sext(x, w)
		if y >= uint64(w) {
			if sx < 0 {
				return m, true
			}
			return 0, true
		}
		return uint64(sx>>y) & m, true
	}
	return 0, false
}

// Bin builds a bit-vector binary operation.
func (s *Store) Bin(op Op, a, b *Term) *Term {
	r := s.bin0(op, a, b)
	switch op {
	case OpAdd:
		s.noteAdd(r, a, b)
	case OpURem:
		s.noteRem(r, a, b)
	}
	return r
}

func (s *Store) bin0(op Op, a, b *Term) *Term {
	if a.W != b.W || a.W == 0 {
		panic(fmt.Sprintf("Bin %s width mismatch %d %d", opNames[op], a.W, b.W))
	}
	w := a.W
	if a.IsConst() && b.IsConst() {
		if v, ok := foldBin(op, a.Val, b.Val, w); ok {
			return s.BV(v, w)
		}
	}
	if !s.NoSimp && (op == OpAdd || op == OpSub) && !(a.IsConst() && a.Val == 0) && !(b.IsConst() && b.Val == 0) && a != b {
		if n := s.narrowBin(op, a, b); n != nil {
			return n
		}
	}
	if !s.NoSimp {
		switch op {
		case OpAdd:
			if a.IsConst() && a.Val == 0 {
				return b
			}
			if b.IsConst() && b.Val == 0 {
				return a
			}
			// (x + k1) + k2
			if b.IsConst() && a.Op == OpAdd && a.Args[1].IsConst() {
				return s.Bin(OpAdd, a.Args[0], s.BV(a.Args[1].Val+b.Val, w))
			}
			if a.IsConst() && !b.IsConst() {
				a, b = b, a
			}
		case OpSub:
			if b.IsConst() && b.Val == 0 {
				return a
			}
			if a == b {
				return s.BV(0, w)
			}
		case OpMul:
			if a.IsConst() && !b.IsConst() {
				a, b = b, a
			}
			if b.IsConst() && b.Val == 0 {
				return b
			}
			if b.IsConst() && b.Val == 1 {
				return a
			}
		case OpBAnd:
			if a == b {
				return a
			}
			if b.IsConst() && b.Val == 0 {
				return b
			}
			if a.IsConst() && a.Val == 0 {
				return a
			}
			if b.IsConst() && b.Val == mask(w) {
				return a
			}
			if a.IsConst() && a.Val == mask(w) {
				return b
			}
		case OpBOr, OpBXor:
			if b.IsConst() && b.Val == 0 {
				return a
			}
			if a.IsConst() && a.Val == 0 {
				return b
			}
		case OpURem:
			if b.IsConst() && b.Val == 1 {
				return s.BV(0, w)
			}
			// (x % m) % m = x % m
			if a.Op == OpURem && a.Args[1] == b {
				return a
			}
			// x % m where x is known < m, < 2m or < 3m
			if b.IsConst() && b.Val > 0 {
				if ub, ok := s.UpperBound(a); ok {
					if ub < b.Val {
						return a
					}
					if s.RemSplit && b.Val < (uint64(1)<<62) && b.Val&(b.Val-1) != 0 {
						if ub < 2*b.Val {
							return s.bounded(s.Ite(s.Cmp(OpULe, b, a), s.remSub(a, b), a), b.Val-1)
						}
						if ub < 3*b.Val {
							b2 := s.BV(2*b.Val, w)
							return s.bounded(s.Ite(s.Cmp(OpULe, b2, a), s.remSub(a, b2), s.Ite(s.Cmp(OpULe, b, a), s.remSub(a, b), a)), b.Val-1)
						}
					}
				}
			}
		case OpUDiv:
			if b.IsConst() && b.Val == 1 {
				return a
			}
		case OpShl, OpLShr, OpAShr:
			if b.IsConst() && b.Val == 0 {
				return a
			}
		}
		// push operations through ite when the other side is constant and both branches are constant
		if b.IsConst() && a.Op == OpIte && a.Args[1].IsConst() && a.Args[2].IsConst() {
			return s.Ite(a.Args[0], s.Bin(op, a.Args[1], b), s.Bin(op, a.Args[2], b))
		}
	}
	return s.mk(op, w, []*Term{a, b}, 0, "")
}

// AssumeRange records a fact lo <= v <= hi about a variable that holds in
// every query of this store (prologue assumptions of a harness). It is used
// by the interval analysis behind UpperBound.
func (s *Store) AssumeRange(v *Term, lo, hi uint64) {
	if v.Op != OpVar || v.W == 0 {
		return
	}
	if s.facts == nil {
		s.facts = map[int][2]uint64{}
	}
	cur, ok := s.facts[v.ID]
	if !ok {
		cur = [2]uint64{0, mask(v.W)}
	}
	if lo > cur[0] {
		cur[0] = lo
	}
	if hi < cur[1] {
		cur[1] = hi
	}
	s.facts[v.ID] = cur
	s.ivMemo = nil
}

// NoteAssumption extracts range facts from an assumed formula of the shapes
// var < c, var <= c, c <= var, c < var (and conjunctions of them).
func (s *Store) NoteAssumption(c *Term) {
	switch c.Op {
	case OpAnd:
		for _, a := range c.Args {
			s.NoteAssumption(a)
		}
	case OpULt:
		x, y := c.Args[0], c.Args[1]
		if x.Op == OpVar && y.IsConst() && y.Val > 0 {
			s.AssumeRange(x, 0, y.Val-1)
		} else if y.Op == OpVar && x.IsConst() && x.Val < mask(y.W) {
			s.AssumeRange(y, x.Val+1, mask(y.W))
		}
	case OpULe:
		x, y := c.Args[0], c.Args[1]
		if x.Op == OpVar && y.IsConst() {
			s.AssumeRange(x, 0, y.Val)
		} else if y.Op == OpVar && x.IsConst() {
			s.AssumeRange(y, x.Val, mask(y.W))
		}
	case OpNot:
		// not (c <= var)  ==  var < c ; not (var < c) == c <= var
		in := c.Args[0]
		switch in.Op {
		case OpULe:
			x, y := in.Args[0], in.Args[1]
			if y.Op == OpVar && x.IsConst() && x.Val > 0 {
				s.AssumeRange(y, 0, x.Val-1)
			} else if x.Op == OpVar && y.IsConst() && y.Val < mask(x.W) {
				s.AssumeRange(x, y.Val+1, mask(x.W))
			}
		case OpULt:
			x, y := in.Args[0], in.Args[1]
			if x.Op == OpVar && y.IsConst() {
				s.AssumeRange(x, y.Val, mask(x.W))
			} else if y.Op == OpVar && x.IsConst() {
				s.AssumeRange(y, 0, x.Val)
			}
		}
	case OpEq:
		x, y := c.Args[0], c.Args[1]
		if x.Op == OpVar && y.IsConst() && x.W > 0 {
			s.AssumeRange(x, y.Val, y.Val)
		} else if y.Op == OpVar && x.IsConst() && y.W > 0 {
			s.AssumeRange(y, x.Val, x.Val)
		}
	}
}

// UpperBound returns an unsigned upper bound of a term from the interval
// analysis (sound under the recorded range facts).
func (s *Store) UpperBound(t *Term) (uint64, bool) {
	iv := s.interval(t)
	if iv[1] == mask(t.W) {
		return iv[1], t.W < 64 // a narrow type's mask is still a real bound
	}
	return iv[1], true
}

// Interval returns [lo, hi] with lo <= t <= hi (unsigned).
func (s *Store) Interval(t *Term) (uint64, uint64) {
	iv := s.interval(t)
	return iv[0], iv[1]
}

func (s *Store) interval(t *Term) [2]uint64 {
	if t.W == 0 {
		return [2]uint64{0, 1}
	}
	if t.Op == OpConst {
		return [2]uint64{t.Val, t.Val}
	}
	if s.ivMemo == nil {
		s.ivMemo = map[int][2]uint64{}
	}
	if iv, ok := s.ivMemo[t.ID]; ok {
		return iv
	}
	full := [2]uint64{0, mask(t.W)}
	res := full
	m := mask(t.W)
	switch t.Op {
	case OpVar:
		if f, ok := s.facts[t.ID]; ok {
			res = f
		}
	case OpZExt:
		res = s.interval(t.Args[0])
	case OpIte:
		a, b := s.interval(t.Args[1]), s.interval(t.Args[2])
		res = [2]uint64{minU(a[0], b[0]), maxU(a[1], b[1])}
	case OpAdd:
		a, b := s.interval(t.Args[0]), s.interval(t.Args[1])
		hi := a[1] + b[1]
		if hi >= a[1] && hi <= m { // no wrap
			res = [2]uint64{a[0] + b[0], hi}
		}
	case OpSub:
		a, b := s.interval(t.Args[0]), s.interval(t.Args[1])
		if a[0] >= b[1] { // never wraps
			res = [2]uint64{a[0] - b[1], a[1] - b[0]}
		}
	case OpURem:
		a, b := s.interval(t.Args[0]), s.interval(t.Args[1])
		if b[0] > 0 {
			res = [2]uint64{0, minU(a[1], b[1]-1)}
		} else {
			res = [2]uint64{0, a[1]}
		}
	case OpUDiv:
		a, b := s.interval(t.Args[0]), s.interval(t.Args[1])
		if b[0] > 0 {
			res = [2]uint64{a[0] / b[1], a[1] / b[0]}
		}
	case OpBAnd:
		a, b := s.interval(t.Args[0]), s.interval(t.Args[1])
		res = [2]uint64{0, minU(a[1], b[1])}
	case OpLShr:
		a := s.interval(t.Args[0])
		if t.Args[1].IsConst() && t.Args[1].Val < uint64(t.W) {
			res = [2]uint64{a[0] >> t.Args[1].Val, a[1] >> t.Args[1].Val}
		} else {
			res = [2]uint64{0, a[1]}
		}
	case OpExtract:
		if t.Val == 0 {
			a := s.interval(t.Args[0])
			if a[1] <= m {
				res = a
			}
		}
	case OpUF:
		if len(t.Args) == 2 {
			a, b := s.interval(t.Args[0]), s.interval(t.Args[1])
			switch {
			case strings.HasPrefix(t.Name, "absrems"), strings.HasPrefix(t.Name, "absdivs"):
			case strings.HasPrefix(t.Name, "absrem"):
				// the divisor is non-zero wherever the value is used (division
				// by zero ends the path)
				hi := a[1]
				if b[1] > 0 && b[1]-1 < hi {
					hi = b[1] - 1
				}
				res = [2]uint64{0, hi}
			case strings.HasPrefix(t.Name, "absdiv"):
				res = [2]uint64{0, a[1]}
			}
		}
	}
	if k, ok := s.known[t.ID]; ok && k < res[1] {
		res[1] = k
		if res[0] > k {
			res[0] = 0
		}
	}
	s.ivMemo[t.ID] = res
	return res
}

// need returns the smallest of 8, 16, 32 bits that holds every value up to
// hi, or 64.
func need(hi uint64) int {
	switch {
	case hi < 1<<8:
		return 8
	case hi < 1<<16:
		return 16
	case hi < 1<<32:
		return 32
	}
	return 64
}

// narrowBin performs op on operands known (by the interval analysis) to be
// small in a narrower width and zero-extends the result; nil if not
// applicable. Sound because neither the operands nor the result exceed the
// narrow width.
func (s *Store) narrowBin(op Op, a, b *Term) *Term {
	if !s.Narrow || a.W <= 8 {
		return nil
	}
	ia, ib := s.interval(a), s.interval(b)
	var k int
	switch op {
	case OpAdd:
		hi := ia[1] + ib[1]
		if hi < ia[1] {
			return nil
		}
		k = need(hi)
	case OpSub:
		if ia[0] < ib[1] {
			return nil
		}
		k = need(ia[1])
	default:
		return nil
	}
	if k >= a.W {
		return nil
	}
	return s.ZExt(s.Bin(op, s.Extract(a, 0, k), s.Extract(b, 0, k)), a.W)
}

func (s *Store) narrowPair(a, b *Term) (*Term, *Term, bool) {
	if !s.Narrow || a.W <= 8 {
		return a, b, false
	}
	ia, ib := s.interval(a), s.interval(b)
	k := need(maxU(ia[1], ib[1]))
	if k >= a.W {
		return a, b, false
	}
	return s.Extract(a, 0, k), s.Extract(b, 0, k), true
}

func minU(a, b uint64) uint64 {
	if a < b {
		return a
	}
	return b
}
func maxU(a, b uint64) uint64 {
	if a > b {
		return a
	}
	return b
}

func (s *Store) Add(a, b *Term) *Term  { return s.Bin(OpAdd, a, b) }
func (s *Store) Sub(a, b *Term) *Term  { return s.Bin(OpSub, a, b) }
func (s *Store) Mul(a, b *Term) *Term  { return s.Bin(OpMul, a, b) }
func (s *Store) URem(a, b *Term) *Term { return s.Bin(OpURem, a, b) }
func (s *Store) UDiv(a, b *Term) *Term { return s.Bin(OpUDiv, a, b) }

func (s *Store) Neg(a *Term) *Term {
	if a.IsConst() {
		return s.BV(-a.Val, a.W)
	}
	if a.Op == OpNeg {
		return a.Args[0]
	}
	return s.mk(OpNeg, a.W, []*Term{a}, 0, "")
}

func (s *Store) BNot(a *Term) *Term {
	if a.IsConst() {
		return s.BV(^a.Val, a.W)
	}
	return s.mk(OpBNot, a.W, []*Term{a}, 0, "")
}

// Cmp builds an unsigned/signed comparison (OpULt, OpULe, OpSLt, OpSLe).
func (s *Store) Cmp(op Op, a, b *Term) *Term {
	if a.W != b.W || a.W == 0 {
		panic(fmt.Sprintf("Cmp width mismatch %d %d", a.W, b.W))
	}
	if a.IsConst() && b.IsConst() {
		switch op {
		case OpULt:
			return s.Bool(a.Val < b.Val)
		case OpULe:
			return s.Bool(a.Val <= b.Val)
		case OpSLt:
			return s.Bool(sext(a.Val, a.W) < sext(b.Val, a.W))
		case OpSLe:
			return s.Bool(sext(a.Val, a.W) <= sext(b.Val, a.W))
		}
	}
	if a == b {
		return s.Bool(op == OpULe || op == OpSLe)
	}
	if !s.NoSimp {
		switch op {
		case OpULt:
			if b.IsConst() && b.Val == 0 {
				return s.False
			}
			ia, ib := s.interval(a), s.interval(b)
			if ia[1] < ib[0] {
				return s.True
			}
			if ia[0] >= ib[1] {
				return s.False
			}
		case OpULe:
			if a.IsConst() && a.Val == 0 {
				return s.True
			}
			ia, ib := s.interval(a), s.interval(b)
			if ia[1] <= ib[0] {
				return s.True
			}
			if ia[0] > ib[1] {
				return s.False
			}
		}
	}
	if !s.NoSimp && (op == OpULt || op == OpULe) {
		if na, nb, ok := s.narrowPair(a, b); ok {
			return s.Cmp(op, na, nb)
		}
	}
	return s.mk(op, 0, []*Term{a, b}, 0, "")
}

func (s *Store) ULt(a, b *Term) *Term { return s.Cmp(OpULt, a, b) }
func (s *Store) ULe(a, b *Term) *Term { return s.Cmp(OpULe, a, b) }
func (s *Store) SLt(a, b *Term) *Term { return s.Cmp(OpSLt, a, b) }
func (s *Store) SLe(a, b *Term) *Term { return s.Cmp(OpSLe, a, b) }

func (s *Store) ZExt(a *Term, w int) *Term {
	if w == a.W {
		return a
	}
	if w < a.W {
		panic("ZExt to narrower")
	}
	if a.IsConst() {
		return s.BV(a.Val, w)
	}
	if a.Op == OpZExt {
		return s.ZExt(a.Args[0], w)
	}
	if a.Op == OpIte && a.Args[1].IsConst() && a.Args[2].IsConst() {
		return s.Ite(a.Args[0], s.ZExt(a.Args[1], w), s.ZExt(a.Args[2], w))
	}
	return s.mk(OpZExt, w, []*Term{a}, 0, "")
}

func (s *Store) SExt(a *Term, w int) *Term {
	if w == a.W {
		return a
	}
	if w < a.W {
		panic("SExt to narrower")
	}
	if a.IsConst() {
		return s.BV(uint64(sext(a.Val, a.W)), w)
	}
	if a.Op == OpIte && a.Args[1].IsConst() && a.Args[2].IsConst() {
		return s.Ite(a.Args[0], s.SExt(a.Args[1], w), s.SExt(a.Args[2], w))
	}
	return s.mk(OpSExt, w, []*Term{a}, 0, "")
}

// Extract bits [lo+w-1 : lo].
func (s *Store) Extract(a *Term, lo, w int) *Term {
	if lo == 0 && w == a.W {
		return a
	}
	if lo+w > a.W {
		panic("Extract out of range")
	}
	if a.IsConst() {
		return s.BV(a.Val>>uint(lo), w)
	}
	if lo == 0 && (a.Op == OpZExt || a.Op == OpSExt) {
		in := a.Args[0]
		if in.W == w {
			return in
		}
		if in.W > w {
			return s.Extract(in, 0, w)
		}
		if a.Op == OpZExt {
			return s.ZExt(in, w)
		}
		return s.SExt(in, w)
	}
	if a.Op == OpIte && a.Args[1].IsConst() && a.Args[2].IsConst() {
		return s.Ite(a.Args[0], s.Extract(a.Args[1], lo, w), s.Extract(a.Args[2], lo, w))
	}
	if a.Op == OpExtract {
		return s.Extract(a.Args[0], lo+int(a.Val), w)
	}
	return s.mk(OpExtract, w, []*Term{a}, uint64(lo), "")
}

// Resize converts between widths the way Go converts integers: truncation,
// or sign/zero extension according to the signedness of the source.
func (s *Store) Resize(a *Term, w int, signedSrc bool) *Term {
	if w == a.W {
		return a
	}
	if w < a.W {
		return s.Extract(a, 0, w)
	}
	if signedSrc {
		return s.SExt(a, w)
	}
	return s.ZExt(a, w)
}

// UF applies an uninterpreted function (declared on first use).
func (s *Store) UF(name string, w int, args ...*Term) *Term {
	if _, ok := s.ufs[name]; !ok {
		var sig []int
		for _, a := range args {
			sig = append(sig, a.W)
		}
		sig = append(sig, w)
		s.ufs[name] = sig
		s.ufOrder = append(s.ufOrder, name)
	}
	return s.mk(OpUF, w, args, 0, name)
}

func sortStr(w int) string {
	if w == 0 {
		return "Bool"
	}
	return fmt.Sprintf("(_ BitVec %d)", w)
}

func constStr(t *Term) string {
	if t.W == 0 {
		if t.Val == 1 {
			return "true"
		}
		return "false"
	}
	if t.W%4 == 0 {
		return fmt.Sprintf("#x%0*x", t.W/4, t.Val)
	}
	return fmt.Sprintf("#b%0*b", t.W, t.Val)
}

// VarSMTName returns the SMT-LIB symbol for a variable.
func VarSMTName(name string) string { return "|" + name + "|" }

func (s *Store) ref(t *Term) string {
	switch t.Op {
	case OpConst:
		return constStr(t)
	case OpVar:
		return VarSMTName(t.Name)
	}
	return fmt.Sprintf("t%d", t.ID)
}

func (s *Store) body(t *Term) string {
	var sb strings.Builder
	switch t.Op {
	case OpZExt:
		fmt.Fprintf(&sb, "((_ zero_extend %d) %s)", t.W-t.Args[0].W, s.ref(t.Args[0]))
	case OpSExt:
		fmt.Fprintf(&sb, "((_ sign_extend %d) %s)", t.W-t.Args[0].W, s.ref(t.Args[0]))
	case OpExtract:
		fmt.Fprintf(&sb, "((_ extract %d %d) %s)", int(t.Val)+t.W-1, t.Val, s.ref(t.Args[0]))
	case OpUF:
		if len(t.Args) == 0 {
			sb.WriteString(t.Name)
			break
		}
		sb.WriteString("(" + t.Name)
		for _, a := range t.Args {
			sb.WriteString(" " + s.ref(a))
		}
		sb.WriteString(")")
	default:
		sb.WriteString("(" + opNames[t.Op])
		for _, a := range t.Args {
			sb.WriteString(" " + s.ref(a))
		}
		sb.WriteString(")")
	}
	return sb.String()
}

// Emitter tracks which declarations/definitions a solver context has seen.
type Emitter struct {
	st       *Store
	defined  map[int]bool
	ufsDone  map[string]bool
	Declared int
}

func NewEmitter(st *Store) *Emitter {
	return &Emitter{st: st, defined: map[int]bool{}, ufsDone: map[string]bool{}}
}

func (e *Emitter) Reset() {
	e.defined = map[int]bool{}
	e.ufsDone = map[string]bool{}
}

// Define writes the declarations and define-funs needed for t (in dependency
// order) that have not been written yet, and returns the reference to t.
func (e *Emitter) Define(sb *strings.Builder, t *Term) string {
	e.define(sb, t)
	return e.st.ref(t)
}

func (e *Emitter) define(sb *strings.Builder, root *Term) {
	// iterative post-order to avoid deep recursion
	type fr struct {
		t *Term
		i int
	}
	stack := []fr{{root, 0}}
	for len(stack) > 0 {
		f := &stack[len(stack)-1]
		t := f.t
		if e.defined[t.ID] || t.Op == OpConst {
			stack = stack[:len(stack)-1]
			continue
		}
		if f.i < len(t.Args) {
			a := t.Args[f.i]
			f.i++
			if !e.defined[a.ID] && a.Op != OpConst {
				stack = append(stack, fr{a, 0})
			}
			continue
		}
		switch t.Op {
		case OpVar:
			fmt.Fprintf(sb, "(declare-const %s %s)\n", VarSMTName(t.Name), sortStr(t.W))
			e.Declared++
		default:
			if t.Op == OpUF && !e.ufsDone[t.Name] {
				sig := e.st.ufs[t.Name]
				sb.WriteString("(declare-fun " + t.Name + " (")
				for i := 0; i < len(sig)-1; i++ {
					if i > 0 {
						sb.WriteString(" ")
					}
					sb.WriteString(sortStr(sig[i]))
				}
				sb.WriteString(") " + sortStr(sig[len(sig)-1]) + ")\n")
				e.ufsDone[t.Name] = true
			}
			fmt.Fprintf(sb, "(define-fun t%d () %s %s)\n", t.ID, sortStr(t.W), e.st.body(t))
		}
		e.defined[t.ID] = true
		stack = stack[:len(stack)-1]
	}
}

// Eval evaluates a term under an assignment of variables (missing variables
// are 0). UF applications are looked up in ufVals by their printed key, and
// default to 0.
func (s *Store) Eval(t *Term, env map[string]uint64, memo map[int]uint64) uint64 {
	if memo == nil {
		memo = map[int]uint64{}
	}
	return s.eval(t, env, memo)
}

func (s *Store) eval(t *Term, env map[string]uint64, memo map[int]uint64) uint64 {
	if v, ok := memo[t.ID]; ok {
		return v
	}
	var v uint64
	b2u := func(b bool) uint64 {
		if b {
			return 1
		}
		return 0
	}
	switch t.Op {
	case OpConst:
		v = t.Val
	case OpVar:
		v = env[t.Name] & mask64(t.W)
	case OpNot:
		v = 1 - s.eval(t.Args[0], env, memo)
	case OpAnd:
		v = 1
		for _, a := range t.Args {
			if s.eval(a, env, memo) == 0 {
				v = 0
				break
			}
		}
	case OpOr:
		v = 0
		for _, a := range t.Args {
			if s.eval(a, env, memo) == 1 {
				v = 1
				break
			}
		}
	case OpIte:
		if s.eval(t.Args[0], env, memo) == 1 {
			v = s.eval(t.Args[1], env, memo)
		} else {
			v = s.eval(t.Args[2], env, memo)
		}
	case OpEq:
		v = b2u(s.eval(t.Args[0], env, memo) == s.eval(t.Args[1], env, memo))
	case OpNeg:
		v = (-s.eval(t.Args[0], env, memo)) & mask(t.W)
	case OpBNot:
		v = (^s.eval(t.Args[0], env, memo)) & mask(t.W)
	case OpULt:
		v = b2u(s.eval(t.Args[0], env, memo) < s.eval(t.Args[1], env, memo))
	case OpULe:
		v = b2u(s.eval(t.Args[0], env, memo) <= s.eval(t.Args[1], env, memo))
	case OpSLt:
		w := t.Args[0].W
		v = b2u(sext(s.eval(t.Args[0], env, memo), w) < sext(s.eval(t.Args[1], env, memo), w))
	case OpSLe:
		w := t.Args[0].W
		v = b2u(sext(s.eval(t.Args[0], env, memo), w) <= sext(s.eval(t.Args[1], env, memo), w))
	case OpZExt:
		v = s.eval(t.Args[0], env, memo)
	case OpSExt:
		v = uint64(sext(s.eval(t.Args[0], env, memo), t.Args[0].W)) & mask(t.W)
	case OpExtract:
		v = (s.eval(t.Args[0], env, memo) >> uint(t.Val)) & mask(t.W)
	case OpUF:
		// abstraction functions are interpreted as the operation they stand for
		var args []uint64
		for _, a := range t.Args {
			args = append(args, s.eval(a, env, memo))
		}
		v = interpretUF(t.Name, args, t.W)
	default:
		x := s.eval(t.Args[0], env, memo)
		y := s.eval(t.Args[1], env, memo)
		r, ok := foldBin(t.Op, x, y, t.W)
		if !ok {
			panic("eval: unknown op")
		}
		v = r
	}
	memo[t.ID] = v
	return v
}

func mask64(w int) uint64 {
	if w == 0 {
		return 1
	}
	return mask(w)
}

// Size returns the number of distinct nodes reachable from the given roots.
func Size(roots ...*Term) int {
	seen := map[int]bool{}
	var stack []*Term
	stack = append(stack, roots...)
	n := 0
	for len(stack) > 0 {
		t := stack[len(stack)-1]
		stack = stack[:len(stack)-1]
		if seen[t.ID] {
			continue
		}
		seen[t.ID] = true
		n++
		stack = append(stack, t.Args...)
	}
	return n
}

// FreeVars returns the variables occurring in the roots.
func FreeVars(roots ...*Term) []*Term {
	seen := map[int]bool{}
	var out []*Term
	var stack []*Term
	stack = append(stack, roots...)
	for len(stack) > 0 {
		t := stack[len(stack)-1]
		stack = stack[:len(stack)-1]
		if seen[t.ID] {
			continue
		}
		seen[t.ID] = true
		if t.Op == OpVar {
			out = append(out, t)
		}
		stack = append(stack, t.Args...)
	}
	sort.Slice(out, func(i, j int) bool { return out[i].ID < out[j].ID })
	return out
}

var _ = bits.Len64

func (t *Term) String() string {
	switch t.Op {
	case OpConst:
		if t.W == 0 {
			return constStr(t)
		}
		return fmt.Sprintf("%d", t.Val)
	case OpVar:
		return t.Name
	}
	var sb strings.Builder
	name := opNames[t.Op]
	switch t.Op {
	case OpZExt:
		name = "zext"
	case OpSExt:
		name = "sext"
	case OpExtract:
		name = fmt.Sprintf("extract%d", t.Val)
	case OpUF:
		name = t.Name
	}
	sb.WriteString("(" + name)
	for _, a := range t.Args {
		if sb.Len() > 200 {
			sb.WriteString(" ...")
			break
		}
		sb.WriteString(" " + a.String())
	}
	sb.WriteString(")")
	return sb.String()
}

// interpretUF gives the abstraction functions their intended meaning when a
// term is evaluated concretely (witness prediction).
func interpretUF(name string, args []uint64, w int) uint64 {
	if len(args) != 2 {
		return 0
	}
	x, y := args[0], args[1]
	has := func(p string) bool { return strings.HasPrefix(name, p) }
	var op Op
	switch {
	case has("absmul"), has("uf_mul"):
		op = OpMul
	case has("absdivs"), has("uf_div"):
		op = OpSDiv
	case has("absdiv"):
		op = OpUDiv
	case has("absrems"), has("uf_rem"):
		op = OpSRem
	case has("absrem"):
		op = OpURem
	default:
		return 0
	}
	if (op == OpSDiv || op == OpSRem || op == OpUDiv || op == OpURem) && y == 0 {
		return 0
	}
	r, _ := foldBin(op, x, y, w)
	return r
}

// RefineUF returns, for every abstraction-function application reachable
// from the roots, the equation "application = the operation it stands for".
func (s *Store) RefineUF(roots ...*Term) []*Term {
	seen := map[int]bool{}
	var out []*Term
	var stack []*Term
	stack = append(stack, roots...)
	for len(stack) > 0 {
		t := stack[len(stack)-1]
		stack = stack[:len(stack)-1]
		if seen[t.ID] {
			continue
		}
		seen[t.ID] = true
		stack = append(stack, t.Args...)
		if t.Op != OpUF || len(t.Args) != 2 {
			continue
		}
		has := func(p string) bool { return strings.HasPrefix(t.Name, p) }
		var op Op
		switch {
		case has("absmul"), has("uf_mul"):
			op = OpMul
		case has("absdivs"), has("uf_div"):
			op = OpSDiv
		case has("absdiv"):
			op = OpUDiv
		case has("absrems"), has("uf_rem"):
			op = OpSRem
		case has("absrem"):
			op = OpURem
		default:
			continue
		}
		eq := s.mk(OpEq, 0, []*Term{t, s.mk(op, t.W, []*Term{t.Args[0], t.Args[1]}, 0, "")}, 0, "")
		if op != OpMul {
			// Go never divides by zero (the path ends in a panic obligation
			// instead), so an application with a zero divisor is unconstrained;
			// SMT-LIB's total bvudiv/bvurem must not be imposed on it
			eq = s.Implies(s.Ne(t.Args[1], s.BV(0, t.W)), eq)
		}
		out = append(out, eq)
	}
	return out
}

// LemmasUF returns facts about the abstraction-function applications
// reachable from the roots that hold for the operations they stand for:
// x rem y < y and <= x, x div y <= x (y != 0), 0*y = 0, 1*y = y.
func (s *Store) LemmasUF(roots ...*Term) []*Term {
	seen := map[int]bool{}
	var out []*Term
	var stack []*Term
	stack = append(stack, roots...)
	for len(stack) > 0 {
		t := stack[len(stack)-1]
		stack = stack[:len(stack)-1]
		if seen[t.ID] {
			continue
		}
		seen[t.ID] = true
		stack = append(stack, t.Args...)
		if t.Op != OpUF || len(t.Args) != 2 {
			continue
		}
		x, y := t.Args[0], t.Args[1]
		zero := s.BV(0, t.W)
		one := s.BV(1, t.W)
		switch {
		case strings.HasPrefix(t.Name, "absrems"), strings.HasPrefix(t.Name, "absdivs"):
		case strings.HasPrefix(t.Name, "absrem"):
			out = append(out, s.Implies(s.Ne(y, zero), s.mk(OpULt, 0, []*Term{t, y}, 0, "")))
			out = append(out, s.Implies(s.Ne(y, zero), s.mk(OpULe, 0, []*Term{t, x}, 0, "")))
			out = append(out, s.Implies(s.mk(OpULt, 0, []*Term{x, y}, 0, ""), s.Eq(t, x)))
		case strings.HasPrefix(t.Name, "absdiv"):
			out = append(out, s.Implies(s.Ne(y, zero), s.mk(OpULe, 0, []*Term{t, x}, 0, "")))
			out = append(out, s.Implies(s.Eq(y, one), s.Eq(t, x)))
		case strings.HasPrefix(t.Name, "absmul"):
			out = append(out, s.Implies(s.Or(s.Eq(x, zero), s.Eq(y, zero)), s.Eq(t, zero)))
			out = append(out, s.Implies(s.Eq(x, one), s.Eq(t, y)))
			out = append(out, s.Implies(s.Eq(y, one), s.Eq(t, x)))
		}
	}
	return out
}

// remSub builds a - c for the compare-and-subtract form of a remainder (the
// subtraction is only selected when a >= c).
func (s *Store) remSub(a, c *Term) *Term {
	if s.Narrow && a.W > 8 {
		ia := s.interval(a)
		k := need(ia[1])
		if k < a.W {
			return s.ZExt(s.mk(OpSub, k, []*Term{s.Extract(a, 0, k), s.BV(c.Val, k)}, 0, ""), a.W)
		}
	}
	return s.mk(OpSub, a.W, []*Term{a, c}, 0, "")
}

// bounded records a known upper bound of a term built by the store itself
// (the result of x % c is below c).
func (s *Store) bounded(t *Term, hi uint64) *Term {
	if t.Op == OpConst {
		return t
	}
	if s.known == nil {
		s.known = map[int]uint64{}
	}
	if cur, ok := s.known[t.ID]; !ok || hi < cur {
		s.known[t.ID] = hi
		s.ivMemo = nil
	}
	// the bound also holds for the narrow term under a zero extension
	if t.Op == OpZExt {
		s.bounded(t.Args[0], hi)
	}
	return t
}

type affine struct {
	base *Term
	off  uint64
}

// ModProv records that a term equals (Base + Off) mod M, with Off < M.
type ModProv struct {
	Base *Term
	Off  uint64
	M    uint64
}

func (s *Store) affOf(t *Term) affine {
	if a, ok := s.aff[t.ID]; ok {
		return a
	}
	return affine{t, 0}
}

// ModProvOf returns the modular provenance of an index term, if known.
func (s *Store) ModProvOf(t *Term) (ModProv, bool) {
	p, ok := s.modprov[t.ID]
	return p, ok
}

func (s *Store) noteAdd(res, a, b *Term) {
	if res.Op == OpConst {
		return
	}
	var x *Term
	var c uint64
	switch {
	case b.IsConst():
		x, c = a, b.Val
	case a.IsConst():
		x, c = b, a.Val
	default:
		return
	}
	ax := s.affOf(x)
	if s.aff == nil {
		s.aff = map[int]affine{}
	}
	if _, ok := s.aff[res.ID]; !ok {
		s.aff[res.ID] = affine{ax.base, ax.off + c}
	}
}

func (s *Store) noteRem(res, a, m *Term) {
	if res.Op == OpConst || !m.IsConst() || m.Val == 0 {
		return
	}
	ax := s.affOf(a)
	// the sum must not wrap for the congruence to hold
	if iv := s.interval(ax.base); iv[1] > (uint64(1)<<62) || ax.off > (uint64(1)<<62) {
		return
	}
	if s.modprov == nil {
		s.modprov = map[int]ModProv{}
	}
	if _, ok := s.modprov[res.ID]; !ok {
		s.modprov[res.ID] = ModProv{ax.base, ax.off % m.Val, m.Val}
	}
}

// SignedUF builds the abstraction of a signed product, quotient or
// remainder ("mul", "div", "rem") with unary minus pulled out of the
// operands first: (-x)*y = -(x*y), (-x)/y = x/(-y) = -(x/y), (-x)%y = -(x%y),
// x%(-y) = x%y (Go's truncated division; operands are bounded well inside 63
// bits by the callers). Both sides of a comparison use this constructor, so
// sign bookkeeping never needs the exact operations.
func (s *Store) SignedUF(name string, a, b *Term) *Term {
	neg := false
	if a.Op == OpNeg {
		a = a.Args[0]
		neg = !neg
	}
	if b.Op == OpNeg {
		b = b.Args[0]
		if name != "rem" {
			neg = !neg
		}
	}
	if name == "mul" && a.ID > b.ID {
		a, b = b, a
	}
	t := s.UF("uf_"+name, a.W, a, b)
	if neg {
		return s.Neg(t)
	}
	return t
}
