package smt

import (
	"bufio"
	"fmt"
	"io"
	"os"
	"os/exec"
	"strconv"
	"strings"
	"time"
)

type Result int

const (
	Unsat Result = iota
	Sat
	Unknown
)

func (r Result) String() string {
	switch r {
	case Unsat:
		return "unsat"
	case Sat:
		return "sat"
	}
	return "unknown"
}

type Stats struct {
	Queries  int
	Sat      int
	Unsat    int
	Unknown  int
	Seconds  float64
	MaxQuery float64
}

// Solver is one persistent solver process driven over stdin/stdout.
type Solver struct {
	Bin       string
	Args      []string
	Kind      string // "z3" or "cvc5"
	TimeoutMs int
	st        *Store
	em        *Emitter
	cmd       *exec.Cmd
	in        io.WriteCloser
	out       *bufio.Reader
	Stats     Stats
	Log       io.Writer // optional transcript
	LastErr   string
	Trace     io.Writer
	defsSince int
}

func NewSolver(st *Store, bin string, timeoutMs int) (*Solver, error) {
	s := &Solver{Bin: bin, st: st, TimeoutMs: timeoutMs}
	if strings.Contains(bin, "cvc5") {
		s.Kind = "cvc5"
		s.Args = []string{"--incremental", "--lang=smt2", "--produce-models", fmt.Sprintf("--tlimit-per=%d", timeoutMs)}
	} else {
		s.Kind = "z3"
		s.Args = []string{"-in"}
	}
	if err := s.start(); err != nil {
		return nil, err
	}
	return s, nil
}

func (s *Solver) start() error {
	s.cmd = exec.Command(s.Bin, s.Args...)
	in, err := s.cmd.StdinPipe()
	if err != nil {
		return err
	}
	out, err := s.cmd.StdoutPipe()
	if err != nil {
		return err
	}
	s.cmd.Stderr = os.Stderr
	if err := s.cmd.Start(); err != nil {
		return err
	}
	s.in = in
	s.out = bufio.NewReaderSize(out, 1<<20)
	s.em = NewEmitter(s.st)
	s.prelude()
	return nil
}

func (s *Solver) prelude() {
	var sb strings.Builder
	if s.Kind == "z3" {
		fmt.Fprintf(&sb, "(set-option :timeout %d)\n", s.TimeoutMs)
		sb.WriteString("(set-option :produce-models true)\n")
	} else {
		sb.WriteString("(set-logic ALL)\n")
	}
	s.send(sb.String())
}

func (s *Solver) send(text string) {
	if s.Log != nil {
		io.WriteString(s.Log, text)
	}
	io.WriteString(s.in, text)
}

// SetTimeout changes the per-query timeout of the running process.
func (s *Solver) SetTimeout(ms int) {
	s.TimeoutMs = ms
	if s.Kind == "z3" {
		s.send(fmt.Sprintf("(set-option :timeout %d)\n", ms))
	}
}

func (s *Solver) Close() {
	if s.cmd != nil {
		s.in.Close()
		s.cmd.Process.Kill()
		s.cmd.Wait()
		s.cmd = nil
	}
}

// Restart kills the process and starts a clean one (used after a timeout
// that leaves the solver in an odd state, or to bound memory).
func (s *Solver) Restart() error {
	s.Close()
	return s.start()
}

func (s *Solver) readLine() (string, error) {
	line, err := s.out.ReadString('\n')
	if s.Log != nil {
		io.WriteString(s.Log, "; <- "+line)
	}
	return strings.TrimSpace(line), err
}

// readSexp reads one balanced s-expression (possibly spanning lines).
func (s *Solver) readSexp() (string, error) {
	var sb strings.Builder
	depth := 0
	started := false
	inBar := false
	for {
		c, err := s.out.ReadByte()
		if err != nil {
			return sb.String(), err
		}
		sb.WriteByte(c)
		if c == '|' {
			inBar = !inBar
		}
		if inBar {
			continue
		}
		if c == '(' {
			depth++
			started = true
		} else if c == ')' {
			depth--
			if started && depth == 0 {
				// consume rest of line
				s.out.ReadString('\n')
				return sb.String(), nil
			}
		} else if !started && c == '\n' && strings.TrimSpace(sb.String()) != "" {
			return sb.String(), nil
		}
	}
}

// Check decides the conjunction of the assertions. If the result is Sat and
// values is non-empty, the model values of those terms are returned keyed by
// term ID.
func (s *Solver) Check(assertions []*Term, values []*Term) (Result, map[int]uint64) {
	for _, a := range assertions {
		if a.IsFalse() {
			return Unsat, nil
		}
	}
	start := time.Now()
	if lem := s.st.LemmasUF(assertions...); len(lem) > 0 {
		assertions = append(append([]*Term(nil), assertions...), lem...)
	}
	var sb strings.Builder
	refs := make([]string, 0, len(assertions))
	for _, a := range assertions {
		if a.IsTrue() {
			continue
		}
		refs = append(refs, s.em.Define(&sb, a))
	}
	vrefs := make([]string, 0, len(values))
	for _, v := range values {
		vrefs = append(vrefs, s.em.Define(&sb, v))
	}
	sb.WriteString("(push 1)\n")
	for _, r := range refs {
		sb.WriteString("(assert " + r + ")\n")
	}
	sb.WriteString("(check-sat)\n")
	s.send(sb.String())
	res := Unknown
	// hard deadline: z3's own :timeout is not honoured inside some
	// preprocessing steps, so the process is killed when it overruns
	watchdog := time.AfterFunc(time.Duration(s.TimeoutMs+15000)*time.Millisecond, func() {
		if s.cmd != nil && s.cmd.Process != nil {
			err := s.cmd.Process.Kill()
			if s.Trace != nil {
				fmt.Fprintf(s.Trace, "[solver] watchdog fired after %d ms: kill -> %v\n", s.TimeoutMs+15000, err)
			}
		}
	})
	defer watchdog.Stop()
	for {
		line, err := s.readLine()
		if err != nil {
			s.LastErr = "solver died: " + err.Error()
			s.Restart()
			s.account(start, Unknown)
			return Unknown, nil
		}
		if line == "" {
			continue
		}
		if strings.HasPrefix(line, "(error") {
			s.LastErr = line
			// drain: the check-sat answer may still follow; treat as inconclusive
			s.Restart()
			s.account(start, Unknown)
			return Unknown, nil
		}
		switch line {
		case "sat":
			res = Sat
		case "unsat":
			res = Unsat
		case "unknown", "timeout":
			res = Unknown
		default:
			s.LastErr = "unexpected solver output: " + line
			s.Restart()
			s.account(start, Unknown)
			return Unknown, nil
		}
		break
	}
	var model map[int]uint64
	if res == Sat && len(values) > 0 {
		model = map[int]uint64{}
		// chunk get-value requests
		const chunk = 200
		for i := 0; i < len(values); i += chunk {
			j := i + chunk
			if j > len(values) {
				j = len(values)
			}
			s.send("(get-value (" + strings.Join(vrefs[i:j], " ") + "))\n")
			txt, err := s.readSexp()
			if err != nil || strings.Contains(txt, "(error") {
				s.LastErr = "get-value failed: " + txt
				s.Restart()
				s.account(start, Unknown)
				return Unknown, nil
			}
			vals, perr := parseValues(txt)
			if perr != nil || len(vals) != j-i {
				s.LastErr = fmt.Sprintf("get-value parse: %v (%d of %d) %q", perr, len(vals), j-i, txt)
				s.Restart()
				s.account(start, Unknown)
				return Unknown, nil
			}
			for k, v := range vals {
				model[values[i+k].ID] = v
			}
		}
	}
	s.send("(pop 1)\n")
	s.account(start, res)
	if res == Unknown && s.Kind == "z3" {
		// a timed-out z3 context is still usable, but restart to bound memory
		s.Restart()
	}
	return res, model
}

func (s *Solver) account(start time.Time, r Result) {
	d := time.Since(start).Seconds()
	if s.Trace != nil && d > 0.5 {
		fmt.Fprintf(s.Trace, "[solver] query %d: %s in %.1fs\n", s.Stats.Queries, r, d)
	}
	s.Stats.Queries++
	s.Stats.Seconds += d
	if d > s.Stats.MaxQuery {
		s.Stats.MaxQuery = d
	}
	switch r {
	case Sat:
		s.Stats.Sat++
	case Unsat:
		s.Stats.Unsat++
	default:
		s.Stats.Unknown++
	}
}

// parseValues parses "((name val) (name val) ...)" returning the values in order.
func parseValues(txt string) ([]uint64, error) {
	toks := tokenize(txt)
	// expect ( ( name val ) ... )
	var out []uint64
	i := 0
	if i >= len(toks) || toks[i] != "(" {
		return nil, fmt.Errorf("expected (")
	}
	i++
	for i < len(toks) && toks[i] == "(" {
		i++
		// name: may itself be an s-expression? we always ask for symbols
		if toks[i] == "(" {
			d := 0
			for {
				if toks[i] == "(" {
					d++
				} else if toks[i] == ")" {
					d--
				}
				i++
				if d == 0 {
					break
				}
			}
		} else {
			i++
		}
		v, n, err := parseVal(toks[i:])
		if err != nil {
			return nil, err
		}
		i += n
		if toks[i] != ")" {
			return nil, fmt.Errorf("expected ) got %s", toks[i])
		}
		i++
		out = append(out, v)
	}
	return out, nil
}

func parseVal(toks []string) (uint64, int, error) {
	t := toks[0]
	switch {
	case t == "true":
		return 1, 1, nil
	case t == "false":
		return 0, 1, nil
	case strings.HasPrefix(t, "#x"):
		v, err := strconv.ParseUint(t[2:], 16, 64)
		return v, 1, err
	case strings.HasPrefix(t, "#b"):
		v, err := strconv.ParseUint(t[2:], 2, 64)
		return v, 1, err
	case t == "(":
		// (_ bvN w)
		if len(toks) >= 5 && toks[1] == "_" && strings.HasPrefix(toks[2], "bv") {
			v, err := strconv.ParseUint(toks[2][2:], 10, 64)
			return v, 5, err
		}
	}
	return 0, 0, fmt.Errorf("cannot parse value %q", t)
}

func tokenize(txt string) []string {
	var toks []string
	i := 0
	for i < len(txt) {
		c := txt[i]
		switch {
		case c == '(' || c == ')':
			toks = append(toks, string(c))
			i++
		case c == ' ' || c == '\n' || c == '\t' || c == '\r':
			i++
		case c == '|':
			j := i + 1
			for j < len(txt) && txt[j] != '|' {
				j++
			}
			toks = append(toks, txt[i:j+1])
			i = j + 1
		default:
			j := i
			for j < len(txt) && !strings.ContainsRune("() \n\t\r", rune(txt[j])) {
				j++
			}
			toks = append(toks, txt[i:j])
			i = j
		}
	}
	return toks
}

// DumpQuery renders a self-contained SMT-LIB2 script for the assertions
// (used for cross-checking with other solver binaries).
func DumpQuery(st *Store, assertions []*Term) string {
	var sb strings.Builder
	em := NewEmitter(st)
	var refs []string
	for _, a := range assertions {
		refs = append(refs, em.Define(&sb, a))
	}
	for _, r := range refs {
		sb.WriteString("(assert " + r + ")\n")
	}
	sb.WriteString("(check-sat)\n")
	return sb.String()
}

// RunOneShot runs a solver binary on a script and returns its verdict.
func RunOneShot(bin string, args []string, script string, timeout time.Duration) (Result, string) {
	cmd := exec.Command(bin, args...)
	cmd.Stdin = strings.NewReader(script)
	var out strings.Builder
	cmd.Stdout = &out
	cmd.Stderr = &out
	if err := cmd.Start(); err != nil {
		return Unknown, err.Error()
	}
	done := make(chan error, 1)
	go func() { done <- cmd.Wait() }()
	select {
	case <-done:
	case <-time.After(timeout):
		cmd.Process.Kill()
		<-done
		return Unknown, "timeout"
	}
	txt := out.String()
	if strings.Contains(txt, "(error") {
		return Unknown, txt
	}
	for _, line := range strings.Split(txt, "\n") {
		switch strings.TrimSpace(line) {
		case "sat":
			return Sat, txt
		case "unsat":
			return Unsat, txt
		}
	}
	return Unknown, txt
}
