package gmars

// C04 — no program can corrupt or crash the simulator: one cycle from an
// arbitrary state satisfying the invariant re-establishes the invariant and
// cannot panic (inductive step), plus the base cases (creation, spawn).

func init() {
	vHarness["C04_step"] = VerifHarness_C04_step
	vHarness["C04_exec"] = VerifHarness_C04_exec
	vHarness["C04_exec_biglimits"] = VerifHarness_C04_exec_biglimits
	vHarness["C04_create"] = VerifHarness_C04_create
	vHarness["C04_spawn"] = VerifHarness_C04_spawn
}

// one task from an arbitrary invariant state: fields, queue shape and
// no-panic after the real exec (split by addressing modes like C01)
func vC04exec(big bool) {
	M := Address(vParam("M"))
	P := Address(vParam("P"))
	R := Address(vU64("R"))
	W := Address(vU64("W"))
	vAssume(R >= 1)
	vAssume(W >= 1)
	if big {
		// accepted configurations may carry limits above the core size
		// (the shipped nop256 preset does): safety must still hold
		vAssume(R <= 4*M)
		vAssume(W <= 4*M)
		vAssume(vOr(R > M, W > M))
	} else {
		vAssume(R <= M)
		vAssume(W <= M)
	}
	s := vMkSim(M, R, W, P, 100)
	w := vMkWarrior(s, P)
	vHavocCore(s)
	vHavocQueue(w.pq, M, 0, P-1)
	pc := Address(vU64("pc"))
	vAssume(pc < M)
	vSetForm(s, pc)
	vPrune(false)
	vAbstractArith(true)
	s.exec(pc, w)
	vAbstractArith(false)
	vPrune(true)
	for i := Address(0); i < M; i++ {
		c := s.mem[i]
		vAssert("inv-fields-below-M", vAnd(c.A < M, c.B < M))
		vAssert("inv-data-model", vAnd(vAnd(c.Op <= 16, c.OpMode <= 6), vAnd(c.AMode <= 7, c.BMode <= 7)))
	}
	q := w.pq
	vAssert("inv-queue-shape", vAnd(vAnd(q.length <= q.size, q.start < q.size), vAnd(q.end < q.size, q.end == (q.start+q.length)%q.size)))
	vAssert("inv-process-limit", q.length <= P)
	for i := Address(0); i < q.size; i++ {
		vAssert("inv-queued-pc-below-M", vImplies(i < q.length, q.queue[(q.start+i)%q.size] < M))
	}
	vObserveSim(s)
	vReach("end")
}

func VerifHarness_C04_exec()           { vC04exec(false) }
func VerifHarness_C04_exec_biglimits() { vC04exec(true) }

// one whole cycle (real RunCycle, real exec) with n warriors in arbitrary
// states: the bookkeeping part of the invariant
func VerifHarness_C04_step() {
	M := Address(vParam("M"))
	P := Address(vParam("P"))
	n := vParam("n")
	R := Address(vU64("R"))
	W := Address(vU64("W"))
	vAssume(R >= 1)
	vAssume(R <= M)
	vAssume(W >= 1)
	vAssume(W <= M)
	maxc := Address(vU64("maxCycles"))
	vAssume(maxc >= 1)
	s := vMkSim(M, R, W, P, maxc)
	vHavocCore(s)
	for i := 0; i < n; i++ {
		vHavocWarrior(s, P)
	}
	s.cycleCount = Address(vU64("cycle"))
	vAssume(s.cycleCount <= maxc)
	s.warriorLivingCount = vAliveCount(s)

	vPrune(false)
	vAbstractArith(true)
	ret := s.RunCycle()
	vAbstractArith(false)
	vPrune(true)

	vAssertInv(s)
	vAssert("returns-living-count-or-zero", vOr(ret == 0, ret == s.warriorLivingCount))
	vObserveSim(s)
	vObserve("ret", uint64(ret))
	vReach("end")
}

// creation: any configuration with every field in 0..2^20 is refused with
// an error or yields a simulator mirroring it; never panics
func VerifHarness_C04_create() {
	var c SimulatorConfig
	c.Mode = SimulatorMode(vU8("mode"))
	c.CoreSize = Address(vParam("M"))
	c.Processes = Address(vU64("procs"))
	c.Cycles = Address(vU64("cycles"))
	c.ReadLimit = Address(vU64("rl"))
	c.WriteLimit = Address(vU64("wl"))
	c.Length = Address(vU64("len"))
	c.Distance = Address(vU64("dist"))
	lim := Address(1 << 20)
	vAssume(c.Processes <= lim)
	vAssume(c.Cycles <= lim)
	vAssume(c.ReadLimit <= lim)
	vAssume(c.WriteLimit <= lim)
	vAssume(c.Length <= lim)
	vAssume(c.Distance <= lim)
	sim, err := newReportSim(c)
	if err != nil {
		vAssert("refused-without-simulator", sim == nil)
		vReach("refused")
		return
	}
	vAssert("accepted-core-at-least-3", sim.m >= 3)
	vAssert("accepted-limits-positive", vAnd(vAnd(sim.maxProcs >= 1, sim.maxCycles >= 1), vAnd(sim.readLimit >= 1, sim.writeLimit >= 1)))
	vAssert("mirrors-config", vAnd(vAnd(sim.m == c.CoreSize, sim.maxProcs == c.Processes), vAnd(sim.readLimit == c.ReadLimit, sim.writeLimit == c.WriteLimit)))
	vAssert("core-allocated", Address(len(sim.mem)) == sim.m)
	vReach("accepted")
}

// spawn: AddWarrior + SpawnWarrior of arbitrary code at an arbitrary
// offset establishes the invariant
func VerifHarness_C04_spawn() {
	M := Address(vParam("M"))
	P := Address(vParam("P"))
	L := vParam("len")
	s := vMkSim(M, M, M, P, 100)
	d := &WarriorData{Code: make([]Instruction, L)}
	for i := 0; i < L; i++ {
		d.Code[i] = vHavocInstr(M)
	}
	d.Start = vInt("start")
	vAssume(d.Start >= 0)
	if L > 0 {
		vAssume(d.Start < L)
	} else {
		vAssume(d.Start == 0)
	}
	off := Address(vU64("off"))
	vAssume(off < 1<<16)
	_, err := s.AddWarrior(d)
	vAssert("add-ok", err == nil)
	err = s.SpawnWarrior(0, off)
	vAssert("spawn-ok", err == nil)
	vAssertInv(s)
	w := s.warriors[0]
	vAssert("alive-after-spawn", w.state == WarriorAlive)
	vAssert("one-task", w.pq.length == 1)
	for i := 0; i < L; i++ {
		vAssert("code-loaded", vSameInstr(s.mem[(off+Address(i))%M], d.Code[i]))
	}
	vObserveSim(s)
	vReach("end")
}
