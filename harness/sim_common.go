package gmars

// Shared harness code for the simulator properties: direct construction of
// simulator states, havoc helpers, and refStep94 — the ICWS'94 reference step
// written from the draft's EMI94 listing (DESIGN.md appendix A), sharing no
// code with sim.go / simops.go.

// vMkSim builds a simulator state directly (initialisation skipped).
func vMkSim(M, R, W, P, maxCycles Address) *reportSim {
	return &reportSim{
		m:          M,
		maxProcs:   P,
		maxCycles:  maxCycles,
		readLimit:  R,
		writeLimit: W,
		mem:        make([]Instruction, M),
	}
}

// vMkWarrior attaches a living warrior with an empty queue of capacity P.
func vMkWarrior(s *reportSim, P Address) *warrior {
	w := &warrior{
		data:  &WarriorData{Code: []Instruction{}},
		sim:   s,
		index: len(s.warriors),
		pq:    newProcessQueue(P),
		state: WarriorAlive,
	}
	s.warriors = append(s.warriors, w)
	s.warriorCount++
	s.warriorLivingCount++
	return w
}

// vHavocInstr returns an arbitrary instruction of the data model with
// fields below M.
func vHavocInstr(M Address) Instruction {
	op := vU8("op")
	md := vU8("opmode")
	am := vU8("amode")
	bm := vU8("bmode")
	a := Address(vU64("a"))
	b := Address(vU64("b"))
	vAssume(op <= 16)
	vAssume(md <= 6)
	vAssume(am <= 7)
	vAssume(bm <= 7)
	vAssume(a < M)
	vAssume(b < M)
	return Instruction{Op: OpCode(op), OpMode: OpMode(md), AMode: AddressMode(am), A: a, BMode: AddressMode(bm), B: b}
}

// vHavocCore makes every cell arbitrary.
func vHavocCore(s *reportSim) {
	for i := Address(0); i < s.m; i++ {
		s.mem[i] = vHavocInstr(s.m)
	}
}

// vHavocQueue puts the ring buffer into an arbitrary valid state holding
// between minLen and maxLen entries, each below M.
func vHavocQueue(q *processQueue, M, minLen, maxLen Address) {
	P := q.size
	start := Address(vU64("qstart"))
	n := Address(vU64("qlen"))
	vAssume(start < P)
	vAssume(n >= minLen)
	vAssume(n <= maxLen)
	vAssume(n <= P)
	for i := Address(0); i < P; i++ {
		e := Address(vU64("qent"))
		vAssume(e < M)
		q.queue[i] = e
	}
	q.start = start
	q.length = n
	q.end = (start + n) % P
}

// ---------------------------------------------------------------------
// reference step

type refSim struct {
	M, R, W, P Address
	core       []Instruction
	qbuf       []Address
	qn         Address
	touched    []bool
	nofold     bool
	canary     bool // deliberately wrong oracle (NOP queues pc+2), for canary twins
}

// vRefFrom copies core and the queue of warrior w into a reference state.
func vRefFrom(s *reportSim, w *warrior) *refSim {
	r := &refSim{M: s.m, R: s.readLimit, W: s.writeLimit, P: s.maxProcs}
	r.core = make([]Instruction, s.m)
	for i := Address(0); i < s.m; i++ {
		r.core[i] = s.mem[i]
	}
	r.touched = make([]bool, s.m)
	r.qbuf = make([]Address, s.maxProcs)
	if w != nil && w.pq != nil {
		for i := Address(0); i < s.maxProcs; i++ {
			r.qbuf[i] = w.pq.queue[(w.pq.start+i)%w.pq.size]
		}
		r.qn = w.pq.length
	}
	return r
}

func (r *refSim) fold(p, limit Address) Address {
	if r.nofold {
		return p % r.M
	}
	res := p % limit
	if res > limit/2 {
		res += r.M - limit
	}
	return res
}

func (r *refSim) queue(pc Address) {
	if r.qn < r.P {
		r.qbuf[r.qn] = pc
		r.qn++
	}
}

func refIsA(m AddressMode) bool {
	return m == A_INDIRECT || m == A_DECREMENT || m == A_INCREMENT
}
func refIsPre(m AddressMode) bool  { return m == A_DECREMENT || m == B_DECREMENT }
func refIsPost(m AddressMode) bool { return m == A_INCREMENT || m == B_INCREMENT }

// operand evaluates one operand; returns read pointer, write pointer and
// the register copy.
func (r *refSim) operand(pc Address, mode AddressMode, number Address) (Address, Address, Instruction) {
	M := r.M
	var rp, wp, pip Address
	if mode != IMMEDIATE {
		rp = r.fold(number, r.R)
		wp = r.fold(number, r.W)
		if mode != DIRECT {
			useA := refIsA(mode)
			if refIsPre(mode) {
				t := (pc + wp) % M
				if useA {
					r.core[t].A = (r.core[t].A + M - 1) % M
				} else {
					r.core[t].B = (r.core[t].B + M - 1) % M
				}
				r.touched[t] = true
			}
			if refIsPost(mode) {
				pip = (pc + wp) % M
			}
			var fr, fw Address
			if useA {
				fr = r.core[(pc+rp)%M].A
				fw = r.core[(pc+wp)%M].A
			} else {
				fr = r.core[(pc+rp)%M].B
				fw = r.core[(pc+wp)%M].B
			}
			rp = r.fold(rp+fr, r.R)
			wp = r.fold(wp+fw, r.W)
		}
	}
	ir := r.core[(pc+rp)%M]
	if refIsPost(mode) {
		if refIsA(mode) {
			r.core[pip].A = (r.core[pip].A + 1) % M
		} else {
			r.core[pip].B = (r.core[pip].B + 1) % M
		}
		r.touched[pip] = true
	}
	return rp, wp, ir
}

func refArith(op OpCode, b, a, M Address) Address {
	switch op {
	case ADD:
		return (b + a) % M
	case SUB:
		return (b + M - a) % M
	case MUL:
		return (b * a) % M
	case DIV:
		return b / a
	default: // MOD
		return b % a
	}
}

func (r *refSim) step(pc Address) {
	M := r.M
	ir := r.core[pc]
	rpa, _, ira := r.operand(pc, ir.AMode, ir.A)
	_, wpb, irb := r.operand(pc, ir.BMode, ir.B)
	T := (pc + wpb) % M
	J := (pc + rpa) % M
	N1 := (pc + 1) % M
	N2 := (pc + 2) % M
	md := ir.OpMode

	switch ir.Op {
	case DAT:
	case MOV:
		switch md {
		case A:
			r.core[T].A = ira.A
		case B:
			r.core[T].B = ira.B
		case AB:
			r.core[T].B = ira.A
		case BA:
			r.core[T].A = ira.B
		case F:
			r.core[T].A = ira.A
			r.core[T].B = ira.B
		case X:
			r.core[T].B = ira.A
			r.core[T].A = ira.B
		case I:
			r.core[T] = ira
		}
		r.touched[T] = true
		r.queue(N1)
	case ADD, SUB, MUL:
		switch md {
		case A:
			r.core[T].A = refArith(ir.Op, irb.A, ira.A, M)
		case B:
			r.core[T].B = refArith(ir.Op, irb.B, ira.B, M)
		case AB:
			r.core[T].B = refArith(ir.Op, irb.B, ira.A, M)
		case BA:
			r.core[T].A = refArith(ir.Op, irb.A, ira.B, M)
		case F, I:
			r.core[T].A = refArith(ir.Op, irb.A, ira.A, M)
			r.core[T].B = refArith(ir.Op, irb.B, ira.B, M)
		case X:
			r.core[T].B = refArith(ir.Op, irb.B, ira.A, M)
			r.core[T].A = refArith(ir.Op, irb.A, ira.B, M)
		}
		r.touched[T] = true
		r.queue(N1)
	case DIV, MOD:
		alive := true
		switch md {
		case A:
			if ira.A != 0 {
				r.core[T].A = refArith(ir.Op, irb.A, ira.A, M)
			} else {
				alive = false
			}
		case B:
			if ira.B != 0 {
				r.core[T].B = refArith(ir.Op, irb.B, ira.B, M)
			} else {
				alive = false
			}
		case AB:
			if ira.A != 0 {
				r.core[T].B = refArith(ir.Op, irb.B, ira.A, M)
			} else {
				alive = false
			}
		case BA:
			if ira.B != 0 {
				r.core[T].A = refArith(ir.Op, irb.A, ira.B, M)
			} else {
				alive = false
			}
		case F, I:
			if ira.A != 0 {
				r.core[T].A = refArith(ir.Op, irb.A, ira.A, M)
			} else {
				alive = false
			}
			if ira.B != 0 {
				r.core[T].B = refArith(ir.Op, irb.B, ira.B, M)
			} else {
				alive = false
			}
		case X:
			if ira.A != 0 {
				r.core[T].B = refArith(ir.Op, irb.B, ira.A, M)
			} else {
				alive = false
			}
			if ira.B != 0 {
				r.core[T].A = refArith(ir.Op, irb.A, ira.B, M)
			} else {
				alive = false
			}
		}
		r.touched[T] = true
		if alive {
			r.queue(N1)
		}
	case JMP:
		r.queue(J)
	case JMZ:
		var z bool
		switch md {
		case A, BA:
			z = irb.A == 0
		case B, AB:
			z = irb.B == 0
		default:
			z = vAnd(irb.A == 0, irb.B == 0)
		}
		if z {
			r.queue(J)
		} else {
			r.queue(N1)
		}
	case JMN:
		var nz bool
		switch md {
		case A, BA:
			nz = irb.A != 0
		case B, AB:
			nz = irb.B != 0
		default:
			nz = vOr(irb.A != 0, irb.B != 0)
		}
		if nz {
			r.queue(J)
		} else {
			r.queue(N1)
		}
	case DJN:
		var nz bool
		switch md {
		case A, BA:
			r.core[T].A = (r.core[T].A + M - 1) % M
			irb.A = (irb.A + M - 1) % M
			nz = irb.A != 0
		case B, AB:
			r.core[T].B = (r.core[T].B + M - 1) % M
			irb.B = (irb.B + M - 1) % M
			nz = irb.B != 0
		default:
			r.core[T].A = (r.core[T].A + M - 1) % M
			irb.A = (irb.A + M - 1) % M
			r.core[T].B = (r.core[T].B + M - 1) % M
			irb.B = (irb.B + M - 1) % M
			nz = vOr(irb.A != 0, irb.B != 0)
		}
		r.touched[T] = true
		if nz {
			r.queue(J)
		} else {
			r.queue(N1)
		}
	case SEQ, CMP, SNE:
		var eq bool
		switch md {
		case A:
			eq = ira.A == irb.A
		case B:
			eq = ira.B == irb.B
		case AB:
			eq = ira.A == irb.B
		case BA:
			eq = ira.B == irb.A
		case F:
			eq = vAnd(ira.A == irb.A, ira.B == irb.B)
		case X:
			eq = vAnd(ira.A == irb.B, ira.B == irb.A)
		default: // I
			eq = vAnd(vAnd(vAnd(ira.Op == irb.Op, ira.OpMode == irb.OpMode), vAnd(ira.AMode == irb.AMode, ira.BMode == irb.BMode)),
				vAnd(ira.A == irb.A, ira.B == irb.B))
		}
		skip := eq
		if ir.Op == SNE {
			skip = !eq
		}
		if skip {
			r.queue(N2)
		} else {
			r.queue(N1)
		}
	case SLT:
		var lt bool
		switch md {
		case A:
			lt = ira.A < irb.A
		case B:
			lt = ira.B < irb.B
		case AB:
			lt = ira.A < irb.B
		case BA:
			lt = ira.B < irb.A
		case F, I:
			lt = vAnd(ira.A < irb.A, ira.B < irb.B)
		default: // X
			lt = vAnd(ira.A < irb.B, ira.B < irb.A)
		}
		if lt {
			r.queue(N2)
		} else {
			r.queue(N1)
		}
	case SPL:
		r.queue(N1)
		r.queue(J)
	case NOP:
		if r.canary {
			r.queue(N2)
		} else {
			r.queue(N1)
		}
	}
}

// vDist is the circular distance between two addresses of a core of size M.
func vDist(a, b, M Address) Address {
	d := (a + M - b) % M
	e := (b + M - a) % M
	return Address(vIte(d < e, uint64(d), uint64(e)))
}

// vSameInstr compares two instructions field by field (eagerly).
func vSameInstr(x, y Instruction) bool {
	return vAnd(vAnd(vAnd(x.Op == y.Op, x.OpMode == y.OpMode), vAnd(x.AMode == y.AMode, x.BMode == y.BMode)),
		vAnd(x.A == y.A, x.B == y.B))
}

// vCompareWithRef asserts cell-for-cell and queue equality.
func vCompareWithRef(s *reportSim, w *warrior, r *refSim) {
	for i := Address(0); i < s.m; i++ {
		vAssert("core-equal", vSameInstr(s.mem[i], r.core[i]))
	}
	vAssert("queue-length-equal", w.pq.length == r.qn)
	// the ring buffer stays well formed, so that the next step sees the same
	// queue as the reference does
	vAssert("queue-shape", vAnd(vAnd(w.pq.start < w.pq.size, w.pq.end < w.pq.size), w.pq.end == (w.pq.start+w.pq.length)%w.pq.size))
	for i := Address(0); i < s.maxProcs; i++ {
		vAssert("queue-equal", vImplies(i < r.qn, w.pq.queue[(w.pq.start+i)%w.pq.size] == r.qbuf[i]))
	}
}

// vObserveSim records the observable simulator state for witness replay.
func vObserveSim(s *reportSim) {
	for i := Address(0); i < s.m; i++ {
		c := s.mem[i]
		vObserve("op", uint64(c.Op))
		vObserve("opmode", uint64(c.OpMode))
		vObserve("amode", uint64(c.AMode))
		vObserve("a", uint64(c.A))
		vObserve("bmode", uint64(c.BMode))
		vObserve("b", uint64(c.B))
	}
	for _, w := range s.warriors {
		vObserve("wstate", uint64(w.state))
		if w.pq != nil {
			vObserve("qlen", uint64(w.pq.length))
			for i := Address(0); i < w.pq.size; i++ {
				vObserve("q", vIte(i < w.pq.length, uint64(w.pq.queue[(w.pq.start+i)%w.pq.size]), 0))
			}
		}
	}
	vObserve("living", uint64(s.warriorLivingCount))
	vObserve("cycle", uint64(s.cycleCount))
}

// ---------------------------------------------------------------------
// fixed-shape recording reporter (paths stay mergeable)

type vRecorder struct {
	m        Address
	nw       int
	written  []bool // named in a write report
	inc      []bool // named in an increment report
	dec      []bool // named in a decrement report
	read     []bool
	badAddr  bool // some report carried an address >= M
	badIndex bool // some report carried a warrior index outside [0, nw)
	wrongWho bool // some task-level report carried an index other than expectWho
	expectWho int
	nPop, nPush, nTaskTerm, nWarTerm, nSpawn, nCycleStart, nCycleEnd, nReset Address
	lastPop     Address
	firstIsPop  bool // the first task-level report was a TaskPop
	seenTask    bool
	lastPush    Address
}

func vNewRecorder(m Address, nw int) *vRecorder {
	return &vRecorder{m: m, nw: nw, written: make([]bool, m), inc: make([]bool, m), dec: make([]bool, m), read: make([]bool, m), expectWho: -1}
}

func (r *vRecorder) checkAddr(rep Report) bool {
	if rep.Address >= r.m {
		r.badAddr = true
		return false
	}
	return true
}

func (r *vRecorder) Report(rep Report) {
	switch rep.Type {
	case SimReset:
		r.nReset++
		return
	case CycleStart:
		r.nCycleStart++
		return
	case CycleEnd:
		r.nCycleEnd++
		return
	}
	if vOr(rep.WarriorIndex < 0, rep.WarriorIndex >= r.nw) {
		r.badIndex = true
	}
	if r.expectWho >= 0 {
		if rep.WarriorIndex != r.expectWho {
			r.wrongWho = true
		}
	}
	if rep.Type != WarriorSpawn {
		if !r.seenTask {
			r.firstIsPop = rep.Type == WarriorTaskPop
			r.seenTask = true
		}
	}
	ok := r.checkAddr(rep)
	switch rep.Type {
	case WarriorSpawn:
		r.nSpawn++
	case WarriorTaskPop:
		r.nPop++
		r.lastPop = rep.Address
	case WarriorTaskPush:
		r.nPush++
		r.lastPush = rep.Address
	case WarriorTaskTerminate:
		r.nTaskTerm++
	case WarriorTerminate:
		r.nWarTerm++
	case WarriorRead:
		if ok {
			r.read[rep.Address] = true
		}
	case WarriorWrite:
		if ok {
			r.written[rep.Address] = true
		}
	case WarriorIncrement:
		if ok {
			r.inc[rep.Address] = true
		}
	case WarriorDecrement:
		if ok {
			r.dec[rep.Address] = true
		}
	}
}

// ---------------------------------------------------------------------
// representation invariant between cycles (DESIGN.md section 4)

// vHavocWarrior adds a warrior in an arbitrary state satisfying Inv.
func vHavocWarrior(s *reportSim, P Address) *warrior {
	w := &warrior{
		data:  &WarriorData{Code: []Instruction{}},
		sim:   s,
		index: len(s.warriors),
		pq:    newProcessQueue(P),
	}
	st := vU8("wstate")
	vAssume(st <= 2)
	w.state = WarriorState(st)
	// alive => 1..P entries; otherwise the queue content is arbitrary (0..P)
	vHavocQueue(w.pq, s.m, 0, P)
	vAssume(vImplies(w.state == WarriorAlive, w.pq.length >= 1))
	s.warriors = append(s.warriors, w)
	s.warriorCount++
	return w
}

// vAliveCount counts the warriors reporting alive (eagerly).
func vAliveCount(s *reportSim) int {
	n := 0
	for _, w := range s.warriors {
		n += vIteInt(w.state == WarriorAlive, 1, 0)
	}
	return n
}

// vAssertInv asserts the safety part of Inv after a step.
func vAssertInv(s *reportSim) {
	M := s.m
	for i := Address(0); i < M; i++ {
		c := s.mem[i]
		vAssert("inv-fields-below-M", vAnd(c.A < M, c.B < M))
		vAssert("inv-data-model", vAnd(vAnd(c.Op <= 16, c.OpMode <= 6), vAnd(c.AMode <= 7, c.BMode <= 7)))
	}
	for _, w := range s.warriors {
		q := w.pq
		vAssert("inv-queue-shape", vAnd(vAnd(q.length <= q.size, q.start < q.size), vAnd(q.end < q.size, q.end == (q.start+q.length)%q.size)))
		vAssert("inv-process-limit", q.length <= s.maxProcs)
		vAssert("inv-alive-iff-tasks", vImplies(w.state == WarriorAlive, q.length >= 1))
		for i := Address(0); i < q.size; i++ {
			vAssert("inv-queued-pc-below-M", vImplies(i < q.length, q.queue[(q.start+i)%q.size] < M))
		}
	}
	vAssert("inv-living-count", s.warriorLivingCount == vAliveCount(s))
	vAssert("inv-cycle-limit", s.cycleCount <= s.maxCycles)
	vAssert("inv-warrior-index", s.warriorIndex == 0)
}
