package gmars

// C14 — isolation and repeatability. What a sequential symbolic executor can
// decide: the simulator's copy of warrior data is isolated from the
// caller's, results do not depend on map iteration order, and neither
// assembling nor simulating writes to state shared between jobs
// (package-level variables, the caller's warrior data, the configuration).
// Schedules produced by the Go scheduler and the race detector's verdict are
// outside this technique (DESIGN.md section 7).

func init() {
	vHarness["C14_copy"] = VerifHarness_C14_copy
	vHarness["C14_maporder"] = VerifHarness_C14_maporder
	vHarness["C14_history"] = VerifHarness_C14_history
	vHarness["C14_footprint"] = VerifHarness_C14_footprint
}

func VerifHarness_C14_copy() {
	M := Address(vParam("M"))
	L := vParam("len")
	// the caller's slice may have spare capacity (a pre-sized buffer)
	d := &WarriorData{Name: "w", Code: make([]Instruction, L, L*vParamOr("capfactor", 1))}
	orig := make([]Instruction, L)
	// wide: the shared data was assembled for a larger core (fields up to 4M)
	wide := vParamOr("wide", 0) == 1
	for i := 0; i < L; i++ {
		if wide {
			d.Code[i] = vHavocInstr(4 * M)
		} else {
			d.Code[i] = vHavocInstr(M)
		}
		orig[i] = d.Code[i]
	}
	d.Start = vInt("start")
	vAssume(d.Start >= 0)
	vAssume(d.Start < L)
	start0 := d.Start
	s := vMkSim(M, M, M, 2, 100)
	w, err := s.AddWarrior(d)
	vAssert("add-ok", err == nil)
	// adding reads the shared data and never writes it
	for i := 0; i < L; i++ {
		vAssert("adding-does-not-touch-callers-data", vSameInstr(d.Code[i], orig[i]))
	}
	vAssert("adding-does-not-touch-callers-data", d.Start == start0 && len(d.Code) == L && d.Name == "w")
	if wide {
		off := Address(vU64("off"))
		vAssume(off < M)
		vAssert("spawn-ok", s.SpawnWarrior(0, off) == nil)
		for i := 0; i < L; i++ {
			vAssert("adding-does-not-touch-callers-data", vSameInstr(d.Code[i], orig[i]))
		}
		vReach("end")
		return
	}
	// the caller changes its data after adding
	for i := 0; i < L; i++ {
		d.Code[i] = vHavocInstr(M)
	}
	d.Start = vInt("start2")
	d.Name = "changed"
	// ... and appends to its own slice
	d.Code = append(d.Code, vHavocInstr(M), vHavocInstr(M))
	d.Code = d.Code[:L]
	off := Address(vU64("off"))
	vAssume(off < M)
	err = s.SpawnWarrior(0, off)
	vAssert("spawn-ok", err == nil)
	for i := 0; i < L; i++ {
		vAssert("simulator-keeps-its-own-copy", vSameInstr(s.mem[(off+Address(i))%M], orig[i]))
	}
	ww := s.warriors[0]
	vAssert("simulator-keeps-its-own-entry-point", ww.pq.queue[ww.pq.start] == (off+Address(start0))%M)
	vAssert("simulator-keeps-its-own-name", w.Name() == "w")
	// the battle overwrites core cells: the caller's data does not change
	snapshot := make([]Instruction, L)
	for i := 0; i < L; i++ {
		snapshot[i] = d.Code[i]
	}
	vPrune(false)
	vAbstractArith(true)
	s.RunCycle()
	vAbstractArith(false)
	vPrune(true)
	for i := 0; i < L; i++ {
		vAssert("battle-does-not-touch-callers-data", vSameInstr(d.Code[i], snapshot[i]))
	}
	// nor the simulator's own pristine copy (Reset + spawn reloads it)
	for i := 0; i < L; i++ {
		vAssert("battle-does-not-touch-loaded-copy", vSameInstr(ww.data.Code[i], orig[i]))
	}
	vAssert("no-shared-state-written", vSharedWrites() == 0)
	vObserveSim(s)
	vReach("end")
}

// the C03 program family assembled under a nondeterministic map iteration
// order (job parameter maporder selects the permutation at every range
// statement): the result is always the by-construction meaning
func VerifHarness_C14_maporder() {
	cfg := ConfigNOP94
	M := cfg.CoreSize
	e := vInt("e")
	vAssume(e >= 0)
	vAssume(e <= 100000)
	v := vInt("v")
	vAssume(v >= 0)
	vAssume(v <= 100000)
	entry := vParam("entry")
	var t []token
	// two chained EQUs so that the reference graph has edges
	t = append(t, tText("y"), tText("equ"), tText("x"), tSym("+"), tNum(0), tNL)
	t = append(t, tText("x"), tText("equ"), tNum(e), tNL)
	if entry == 1 {
		t = append(t, tText("org"), tText("b"), tNL)
	}
	// a FOR count given by an EQU whose value mentions one name twice and
	// then another one (the reference graph must record all of them)
	t = append(t, tText("cnt"), tText("equ"), tText("s"), tSym("*"), tText("s"), tSym("-"), tText("q"), tNL)
	t = append(t, tText("s"), tText("equ"), tNum(2), tNL)
	t = append(t, tText("q"), tText("equ"), tNum(4), tNL)
	t = append(t, tText("a"), tText("mov.i"), tSym("#"), tText("y"), tComma, tText("b"), tNL)
	t = append(t, tText("dat"), tSym("#"), tNum(v), tComma, tSym("#"), tText("a"), tNL)
	t = append(t, tText("b"), tText("jmp"), tText("a"), tComma, tText("x"), tSym("+"), tNum(1), tNL)
	// cnt = 2*2-4 = 0 iterations: the block emits nothing but its count must be evaluated
	t = append(t, tText("i"), tText("for"), tText("cnt"), tNL, tText("dat"), tText("i"), tNL, tText("rof"), tNL)
	switch entry {
	case 2:
		t = append(t, tText("end"), tText("a"), tNL)
	case 3:
		t = append(t, tText("end"), tNL)
	}
	t = append(t, token{tokEOF, ""})
	vMapPerm(true)
	vUnwind(400)
	w, err := vCompileTokens(t, cfg)
	vUnwind(64)
	vMapPerm(false)
	vAssert("assembles-under-every-order", err == nil)
	if err != nil {
		return
	}
	want, start := vC03meaning(M, e, v, entry)
	ok := len(w.Code) == len(want) && w.Start == start
	if ok {
		for i := range want {
			vAssert("result-independent-of-map-order", vSameInstr(w.Code[i], want[i]))
		}
	}
	vAssert("result-independent-of-map-order", ok)
	vAssert("no-shared-state-written", vSharedWrites() == 0)
	vReach("end")
}

// assembling under one configuration, then another of the same core size,
// then the first again, in one process: every result is the one the
// configuration in force determines (no state survives an assembly)
func VerifHarness_C14_history() {
	M := Address(vParam("M"))
	mk := func(tag string) SimulatorConfig {
		c := NewQuickConfig(ICWS94, M, 1, 1, 1)
		c.Processes = Address(vU64(tag + "procs"))
		c.Length = Address(vU64(tag + "len"))
		c.Distance = Address(vU64(tag + "dist"))
		vAssume(c.Processes >= 1 && c.Processes <= 100000)
		vAssume(c.Length >= 2 && c.Length <= M)
		vAssume(c.Distance >= 1 && c.Distance <= M)
		vAssume(c.Length+c.Distance <= M) // a valid configuration
		return c
	}
	cfgs := []SimulatorConfig{mk("a_"), mk("b_")}
	order := []int{0, 1, 0}
	for _, k := range order {
		cfg := cfgs[k]
		lines := []sourceLine{
			{typ: lineInstruction, op: "dat", amode: "#", a: []token{{tokText, "MAXLENGTH"}}, bmode: "#", b: []token{{tokText, "MINDISTANCE"}}},
			{typ: lineInstruction, op: "dat", amode: "#", a: []token{{tokText, "MAXPROCESSES"}}, bmode: "#", b: []token{{tokText, "CORESIZE"}}},
		}
		c, err := newCompiler(lines, WarriorData{}, cfg)
		vAssert("compiler-created", err == nil)
		if err != nil {
			return
		}
		w, err := c.compile()
		vAssert("assembles", err == nil)
		if err != nil {
			return
		}
		vAssert("result-independent-of-earlier-assemblies",
			w.Code[0].A == cfg.Length%M && w.Code[0].B == cfg.Distance%M && w.Code[1].A == cfg.Processes%M && w.Code[1].B == 0)
	}
	vAssert("no-shared-state-written", vSharedWrites() == 0)
	vReach("end")
}

// one whole job (assemble a text, build a simulator, add, spawn, run a
// cycle) writes no package-level variable and leaves the shared inputs alone
func VerifHarness_C14_footprint() {
	M := Address(vParam("M"))
	cfg := NewQuickConfig(ICWS94, M, 2, 10, 2)
	cfg0 := cfg
	text := "a mov.i a, b\nb dat #0, #" + vDec(vPick("lit", 0, 3)) + "\n"
	d, err := CompileWarrior(vTextReader(text), cfg)
	vAssert("assembles", err == nil)
	if err != nil {
		return
	}
	shared := d.Copy()
	sim, err := NewReportingSimulator(cfg)
	vAssert("simulator-created", err == nil)
	rec := NewStateRecorder(sim)
	sim.AddReporter(rec)
	_, err = sim.AddWarrior(&d)
	vAssert("added", err == nil)
	off := Address(vU64("off"))
	vAssume(off < M)
	vAssert("spawned", sim.SpawnWarrior(0, off) == nil)
	vPrune(false)
	vAbstractArith(true)
	sim.RunCycle()
	sim.RunCycle()
	vAbstractArith(false)
	vPrune(true)
	// the simulator is reset and used again, as a tournament driver does
	sim.Reset()
	vAssert("respawned", sim.SpawnWarrior(0, off) == nil)
	vAssert("no-shared-state-written", vSharedWrites() == 0)
	vAssert("configuration-unchanged", cfg == cfg0)
	for i := range shared.Code {
		vAssert("shared-warrior-data-unchanged", vSameInstr(d.Code[i], shared.Code[i]))
	}
	vAssert("shared-warrior-data-unchanged", d.Start == shared.Start && len(d.Code) == len(shared.Code))
	vReach("end")
}
