package gmars

import (
	"fmt"
	"io"
	"strings"
)

// C08 — FOR/ROF blocks assemble exactly like their manual unrolling, and
// block labels refer to the first instruction the block emits.

func init() {
	vHarness["C08_family"] = VerifHarness_C08_family
	vHarness["C08_sequence"] = VerifHarness_C08_sequence
	vHarness["C08_sequence_probe"] = VerifHarness_C08_sequence_probe
	vHarness["C08_label_probe"] = VerifHarness_C08_label_probe
}

// vCompileTokens is the real CompileWarrior on a reader whose lexing yields
// the given tokens (the lexer itself is C05's subject): the scan / expand
// pass loop, parser and compiler all run from CompileWarrior's own code.
func vCompileTokens(tokens []token, config SimulatorConfig) (WarriorData, error) {
	return CompileWarrior(vTokenReader(tokens), config)
}

// vTokenReader: a reader whose lexing yields exactly the given tokens.
// Natively the tokens are written out as text (blank separated) and the real
// lexer reads them back; a list that does not survive that round trip is a
// harness error and is reported, not hidden. Under the engine the package's
// lexer hands the list out unchanged.
func vTokenReader(tokens []token) io.Reader {
	var sb strings.Builder
	first := true
	for _, t := range tokens {
		switch t.typ {
		case tokNewline:
			sb.WriteString("\n")
			first = true
		case tokEOF:
		default:
			if !first {
				sb.WriteString(" ")
			}
			sb.WriteString(t.val)
			first = false
		}
	}
	text := sb.String()
	back, err := LexInput(strings.NewReader(text))
	same := err == nil && len(back) == len(tokens)
	for i := 0; same && i < len(back); i++ {
		same = back[i].typ == tokens[i].typ && (back[i].val == tokens[i].val || tokens[i].typ == tokNewline || tokens[i].typ == tokEOF)
	}
	if !same {
		panic(fmt.Sprintf("vTokenReader: token list is not what the lexer reads from its rendering %q", text))
	}
	return strings.NewReader(text)
}

type vError struct{ s string }

func (e *vError) Error() string { return e.s }
func vErr(s string) error       { return &vError{s} }

func tText(s string) token { return token{tokText, s} }
func tNum(v int) token     { return token{tokNumber, vDec(v)} }
func tSym(s string) token  { return token{tokSymbol, s} }

var tNL = token{tokNewline, ""}
var tComma = token{tokComma, ","}

// "dat #a, #b" with a and b given as token lists
func vDatLine(a, b []token) []token {
	out := []token{tText("dat"), tSym("#")}
	out = append(out, a...)
	out = append(out, tComma, tSym("#"))
	out = append(out, b...)
	return append(out, tNL)
}

func VerifHarness_C08_family() {
	M := 8000
	cfg := ConfigNOP94
	c1 := vInt("count1")
	vAssume(c1 >= 0)
	vAssume(c1 <= vParam("maxCount"))
	c2 := vInt("count2")
	vAssume(c2 >= 0)
	vAssume(c2 <= vParam("maxCount"))
	c3 := vInt("count3")
	vAssume(c3 >= 0)
	vAssume(c3 <= vParam("maxCount"))
	v1 := vInt("v1")
	vAssume(v1 >= 0)
	vAssume(v1 <= 1000)
	nested := vParam("nested") == 1
	second := vParam("second") == 1
	countForm := vPick("countForm", 0, 2) // literal, EQU name, EQU name + 1
	hasLabel := vPick("label", 0, 1) == 1
	hasPre := vPick("pre", 0, 1) == 1

	// ---- the FOR program
	var f []token
	cnt1 := []token{tNum(c1)}
	if countForm == 1 {
		f = append(f, tText("N"), tText("equ"), tNum(c1), tNL)
		// a later, unrelated definition must not disturb the first
		f = append(f, tText("STEP"), tText("equ"), tNum(5), tNL)
		cnt1 = []token{tText("N")}
	} else if countForm == 2 {
		vAssume(c1 >= 1)
		f = append(f, tText("N"), tText("equ"), tNum(c1-1), tNL)
		f = append(f, tText("STEP"), tText("equ"), tNum(5), tNL)
		cnt1 = []token{tText("N"), tSym("+"), tNum(1)}
	}
	if hasPre {
		f = append(f, vDatLine([]token{tNum(0)}, []token{tNum(7)})...)
	}
	if hasLabel {
		f = append(f, tText("blk"))
	}
	f = append(f, tText("i"), tText("for"))
	f = append(f, cnt1...)
	f = append(f, tNL)
	deep := vParam("nested") == 2 // a third level inside the second
	// the outer body may consist of the nested block only (then a block
	// label names the first instruction the inner block writes)
	outerDat := !(nested && vPick("outerDat", 0, 1) == 0)
	if outerDat {
		f = append(f, vDatLine([]token{tText("i")}, []token{tNum(v1), tSym("+"), tText("i")})...)
	}
	if nested || deep {
		f = append(f, tText("j"), tText("for"), tNum(c2), tNL)
		f = append(f, vDatLine([]token{tText("i")}, []token{tText("j")})...)
		if deep {
			f = append(f, tText("m"), tText("for"), tNum(c3), tNL)
			f = append(f, vDatLine([]token{tText("j")}, []token{tText("m")})...)
			f = append(f, tText("rof"), tNL)
			f = append(f, vDatLine([]token{tText("j")}, []token{tNum(4)})...)
		}
		f = append(f, tText("rof"), tNL)
	}
	f = append(f, tText("rof"), tNL)
	if second {
		if countForm >= 1 {
			// (the label of an empty first block would become a second name of
			// this EQU line: not a case the property speaks about)
			vAssume(!(hasLabel && (c1 == 0 || (!outerDat && c2 == 0))))
			// the second block's count is an EQU defined between the blocks
			f = append(f, tText("K3"), tText("equ"), tNum(c3), tNL)
			f = append(f, tText("k"), tText("for"), tText("K3"), tNL)
		} else {
			f = append(f, tText("k"), tText("for"), tNum(c3), tNL)
		}
		f = append(f, vDatLine([]token{tText("k")}, []token{tNum(5)})...)
		f = append(f, tText("rof"), tNL)
	}
	// a reference to the block label after the blocks
	if hasLabel {
		f = append(f, tText("jmp"), tText("blk"), tNL)
	}
	f = append(f, vDatLine([]token{tNum(0)}, []token{tNum(9)})...)
	f = append(f, token{tokEOF, ""})

	// ---- its manual unrolling, and the by-construction meaning
	var u []token
	var want []Instruction
	dat := func(a, b int) Instruction {
		return Instruction{Op: DAT, OpMode: F, AMode: IMMEDIATE, A: Address(a % M), BMode: IMMEDIATE, B: Address(b % M)}
	}
	if hasPre {
		u = append(u, vDatLine([]token{tNum(0)}, []token{tNum(7)})...)
		want = append(want, dat(0, 7))
	}
	first := len(want)
	// the block label goes in front of the next line that is written out
	// (for an empty block: the line that follows the block)
	pending := hasLabel
	label := func() {
		if pending {
			u = append(u, tText("blk"))
			pending = false
		}
	}
	for i := 1; i <= c1; i++ {
		if outerDat {
			label()
			u = append(u, vDatLine([]token{tNum(i)}, []token{tNum(v1), tSym("+"), tNum(i)})...)
			want = append(want, dat(i, v1+i))
		}
		if nested || deep {
			for j := 1; j <= c2; j++ {
				label()
				u = append(u, vDatLine([]token{tNum(i)}, []token{tNum(j)})...)
				want = append(want, dat(i, j))
				if deep {
					for m := 1; m <= c3; m++ {
						u = append(u, vDatLine([]token{tNum(j)}, []token{tNum(m)})...)
						want = append(want, dat(j, m))
					}
					u = append(u, vDatLine([]token{tNum(j)}, []token{tNum(4)})...)
					want = append(want, dat(j, 4))
				}
			}
		}
	}
	if second {
		for k := 1; k <= c3; k++ {
			label()
			u = append(u, vDatLine([]token{tNum(k)}, []token{tNum(5)})...)
			want = append(want, dat(k, 5))
		}
	}
	if hasLabel {
		label()
		u = append(u, tText("jmp"), tText("blk"), tNL)
		off := (first - len(want) + M) % M
		want = append(want, Instruction{Op: JMP, OpMode: B, AMode: DIRECT, A: Address(off), BMode: DIRECT, B: 0})
	}
	u = append(u, vDatLine([]token{tNum(0)}, []token{tNum(9)})...)
	want = append(want, dat(0, 9))
	u = append(u, token{tokEOF, ""})

	vUnwind(3000)
	wf, ef := vCompileTokens(f, cfg)
	wu, eu := vCompileTokens(u, cfg)
	vUnwind(64)
	vAssert("for-program-assembles", ef == nil)
	vAssert("unrolled-program-assembles", eu == nil)
	if ef != nil || eu != nil {
		return
	}
	vAssert("same-length", len(wf.Code) == len(wu.Code) && len(wf.Code) == len(want))
	if len(wf.Code) != len(want) || len(wu.Code) != len(want) {
		return
	}
	for i := range want {
		vAssert("for-equals-unrolled", vSameInstr(wf.Code[i], wu.Code[i]))
		vAssert("for-equals-meaning", vSameInstr(wf.Code[i], want[i]))
	}
	vAssert("same-entry-point", wf.Start == wu.Start)
	vObserve("ncode", uint64(len(wf.Code)))
	vReach("end")
}

// many blocks in sequence: the expander handles one block per pass
func VerifHarness_C08_sequence()       { vC08sequence() }
func VerifHarness_C08_sequence_probe() { vC08sequence() }

func vC08sequence() {
	n := vParam("blocks")
	if vKnown("for-pass-limit-12") && vParamOr("probe", 0) == 0 {
		// known finding: more than 12 expansion passes are refused
		vAssume(n <= 12)
	}
	var f []token
	for b := 0; b < n; b++ {
		f = append(f, tText("i"), tText("for"), tNum(1), tNL)
		f = append(f, vDatLine([]token{tText("i")}, []token{tNum(b)})...)
		f = append(f, tText("rof"), tNL)
	}
	f = append(f, token{tokEOF, ""})
	vUnwind(4000)
	w, err := vCompileTokens(f, ConfigNOP94)
	vUnwind(64)
	vAssert("sequence-assembles", err == nil)
	if err != nil {
		return
	}
	vAssert("sequence-length", len(w.Code) == n)
	for b := 0; b < len(w.Code) && b < n; b++ {
		vAssert("sequence-code", w.Code[b].A == 1 && w.Code[b].B == Address(b))
	}
	vReach("end")
}

// probe for the known finding "for-label-before-counterless-inner-for"
func VerifHarness_C08_label_probe() {
	texts := []string{
		"x i for 2\nfor 2\ndat 0\nrof\nrof\njmp x\n",
		"x i for 0\ndat 0\nrof\nfor 2\ndat 1\nrof\njmp x\n",
	}
	text := texts[vPick("which", 0, 1)]
	vUnwind(600)
	w, err := CompileWarrior(vTextReader(text), ConfigNOP94)
	vAssert("labelled-block-assembles", err == nil && len(w.Code) >= 3)
	vReach("end")
}
