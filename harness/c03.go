package gmars

// C03 — source assembles to what it denotes (table kernels here; the
// symbol / surface kernels are in c03_prog.go).

func init() {
	vHarness["C03_default94"] = VerifHarness_C03_default94
	vHarness["C03_legal88"] = VerifHarness_C03_legal88
}

// K1: default modifier over the whole 17 x 8 x 8 domain
func VerifHarness_C03_default94() {
	op := OpCode(vU8("op"))
	a := AddressMode(vU8("amode"))
	b := AddressMode(vU8("bmode"))
	vAssume(op <= 16)
	vAssume(a <= 7)
	vAssume(b <= 7)
	vPrune(false)
	got, err := getOpMode94(op, a, b)
	want := refDefault94(op, a, b)
	vPrune(true)
	vAssert("default-modifier-no-error", err == nil)
	vAssert("default-modifier", got == want)
	vObserve("mode", uint64(got))
	vReach("end")
}

// K2: ICWS'88 legality and implied modifier over the whole domain
func VerifHarness_C03_legal88() {
	op := OpCode(vU8("op"))
	a := AddressMode(vU8("amode"))
	b := AddressMode(vU8("bmode"))
	vAssume(op <= 16)
	vAssume(a <= 7)
	vAssume(b <= 7)
	// the reader/assembler only call this with '88 modes; the table must
	// still be right on those
	is88 := func(m AddressMode) bool {
		return vOr(vOr(m == IMMEDIATE, m == DIRECT), vOr(m == B_INDIRECT, m == B_DECREMENT))
	}
	vAssume(is88(a))
	vAssume(is88(b))
	got, err := getOpModeAndValidate88(op, a, b)
	ok, want := refLegal88(op, a, b)
	if err != nil {
		vAssert("legal88-rejects-only-illegal", !ok)
		vReach("rejected")
		return
	}
	vAssert("legal88-accepts-only-legal", ok)
	vAssert("legal88-modifier", got == want)
	vObserve("mode", uint64(got))
	vReach("accepted")
}
