package gmars

// C12 — position independence: one step of a rotated state is the rotation
// of one step (inductive step, 2-safety), and spawning at off and at
// off+k+j*M gives rotated states (base).

func init() {
	vHarness["C12_step"] = VerifHarness_C12_step
	vHarness["C12_step_canary"] = VerifHarness_C12_step_canary
	vHarness["C12_spawn"] = VerifHarness_C12_spawn
	vHarness["C12_cycle"] = VerifHarness_C12_cycle
}

// vRotate builds the simulator state rotated by k cells.
func vRotate(s1 *reportSim, k Address) *reportSim {
	M := s1.m
	s2 := vMkSim(M, s1.readLimit, s1.writeLimit, s1.maxProcs, s1.maxCycles)
	for a := Address(0); a < M; a++ {
		s2.mem[(a+k)%M] = s1.mem[a]
	}
	for _, w1 := range s1.warriors {
		w2 := vMkWarrior(s2, s1.maxProcs)
		w2.state = w1.state
		for i := Address(0); i < w1.pq.size; i++ {
			w2.pq.queue[i] = (w1.pq.queue[i] + k) % M
		}
		w2.pq.start = w1.pq.start
		w2.pq.length = w1.pq.length
		w2.pq.end = w1.pq.end
	}
	s2.warriorLivingCount = s1.warriorLivingCount
	s2.cycleCount = s1.cycleCount
	return s2
}

// vAssertRotated asserts s2 == rotate(s1, k) on core and queues.
func vAssertRotated(s1, s2 *reportSim, k Address) {
	M := s1.m
	for a := Address(0); a < M; a++ {
		vAssert("rotated-core-equal", vSameInstr(s2.mem[(a+k)%M], s1.mem[a]))
	}
	for wi, w1 := range s1.warriors {
		w2 := s2.warriors[wi]
		vAssert("rotated-state-equal", w1.state == w2.state)
		vAssert("rotated-queue-length-equal", w1.pq.length == w2.pq.length)
		for i := Address(0); i < w1.pq.size; i++ {
			e1 := w1.pq.queue[(w1.pq.start+i)%w1.pq.size]
			e2 := w2.pq.queue[(w2.pq.start+i)%w2.pq.size]
			vAssert("rotated-queue-equal", vImplies(i < w1.pq.length, e2 == (e1+k)%M))
		}
	}
	vAssert("rotated-counters-equal", vAnd(s1.warriorLivingCount == s2.warriorLivingCount, s1.cycleCount == s2.cycleCount))
}

func vC12(canary bool) {
	M := Address(vParam("M"))
	P := Address(vParam("P"))
	R := Address(vU64("R"))
	W := Address(vU64("W"))
	vAssume(R >= 1)
	vAssume(R <= M)
	vAssume(W >= 1)
	vAssume(W <= M)
	s1 := vMkSim(M, R, W, P, 100)
	w1 := vMkWarrior(s1, P)
	vHavocCore(s1)
	vHavocQueue(w1.pq, M, 0, P-1)
	pc := Address(vU64("pc"))
	vAssume(pc < M)
	if c := vParamOr("pc", -1); c >= 0 {
		pc = Address(c)
	}
	vSetForm(s1, pc)
	k := Address(vU64("k"))
	vAssume(k < M)
	if c := vParamOr("k", -1); c >= 0 {
		k = Address(c)
	}
	s2 := vRotate(s1, k)
	w2 := s2.warriors[0]
	pc2 := (pc + k) % M
	if canary {
		// deliberately wrong: the rotated run starts one cell off
		pc2 = (pc + k + 1) % M
	}
	vPrune(false)
	vAbstractArith(true)
	s1.exec(pc, w1)
	s2.exec(pc2, w2)
	vAbstractArith(false)
	vPrune(true)
	vAssertRotated(s1, s2, k)
	vObserveSim(s1)
	vObserveSim(s2)
	vReach("end")
}

func VerifHarness_C12_step()        { vC12(false) }
func VerifHarness_C12_step_canary() { vC12(true) }

// one whole cycle of a rotated battle (real RunCycle): scheduling does not
// look at addresses
func VerifHarness_C12_cycle() {
	M := Address(vParam("M"))
	P := Address(vParam("P"))
	n := vParam("n")
	s1 := vMkSim(M, M, M, P, 100)
	vHavocCore(s1)
	for i := 0; i < n; i++ {
		vHavocWarrior(s1, P)
	}
	s1.warriorLivingCount = vAliveCount(s1)
	s1.cycleCount = Address(vU64("cycle"))
	vAssume(s1.cycleCount <= 100)
	k := Address(vU64("k"))
	vAssume(k < M)
	s2 := vRotate(s1, k)
	vPrune(false)
	vAbstractArith(true)
	r1 := s1.RunCycle()
	r2 := s2.RunCycle()
	vAbstractArith(false)
	vPrune(true)
	vAssert("rotated-return-equal", r1 == r2)
	vAssertRotated(s1, s2, k)
	vObserveSim(s1)
	vReach("end")
}

// base: spawning at off and at off + k + j*M
func VerifHarness_C12_spawn() {
	M := Address(vParam("M"))
	P := Address(vParam("P"))
	L := vParam("len")
	d := &WarriorData{Code: make([]Instruction, L)}
	for i := 0; i < L; i++ {
		d.Code[i] = vHavocInstr(M)
	}
	d.Start = vInt("start")
	vAssume(d.Start >= 0)
	vAssume(d.Start < L)
	off := Address(vU64("off"))
	vAssume(off < M)
	k := Address(vU64("k"))
	vAssume(k < M)
	j := Address(vU64("j"))
	vAssume(j <= 2)
	if vParamOr("concrete", 0) == 1 {
		// every placement enumerated (loaders that branch on the offset)
		off = Address(vPick("offc", 0, int(M)-1))
		k = Address(vPick("kc", 0, int(M)-1))
		j = Address(vPick("jc", 0, 2))
	}
	s1 := vMkSim(M, M, M, P, 100)
	s2 := vMkSim(M, M, M, P, 100)
	s1.AddWarrior(d)
	s2.AddWarrior(d)
	e1 := s1.SpawnWarrior(0, off)
	e2 := s2.SpawnWarrior(0, off+k+j*M)
	vAssert("spawn-ok", vAnd(e1 == nil, e2 == nil))
	vAssertRotated(s1, s2, k)
	vObserveSim(s1)
	vObserveSim(s2)
	vReach("end")
}
