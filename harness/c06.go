package gmars

// C06 — accepted programs are well-formed and obey the selected rule set;
// C03/K3 — one source line assembles to the instruction it denotes.

func init() {
	vHarness["C06_line"] = VerifHarness_C06_line
	vHarness["C06_program"] = VerifHarness_C06_program
}

var vMnemonics = []string{"dat", "mov", "add", "sub", "mul", "div", "mod", "cmp", "seq", "sne", "slt", "jmp", "jmz", "jmn", "djn", "spl", "nop"}
var vMnemonicOps = []OpCode{DAT, MOV, ADD, SUB, MUL, DIV, MOD, CMP, SEQ, SNE, SLT, JMP, JMZ, JMN, DJN, SPL, NOP}
var vModifierNames = []string{"f", "a", "b", "ab", "ba", "x", "i"}
var vModeChars = []string{"$", "#", "*", "@", "{", "<", "}", ">"}

func vUpper(s string) string {
	b := []byte(s)
	for i := range b {
		if b[i] >= 'a' && b[i] <= 'z' {
			b[i] -= 32
		}
	}
	return string(b)
}

func vMixed(s string) string {
	b := []byte(s)
	if len(b) > 0 && b[0] >= 'a' && b[0] <= 'z' {
		b[0] -= 32
	}
	return string(b)
}

// vOperand builds the token list of a literal operand with value sign*mag.
func vOperand(neg bool, mag int) []token {
	if neg {
		return []token{{tokSymbol, "-"}, {tokNumber, vDec(mag)}}
	}
	return []token{{tokNumber, vDec(mag)}}
}

func vReduce(v int, M Address) Address {
	m := int(M)
	r := v % m
	if r < 0 {
		r += m
	}
	return Address(r)
}

func VerifHarness_C06_line() {
	M := Address(vParam("M"))
	dialect := vParam("dialect") // 0: ICWS'88, 1: ICWS'94
	opIdx := vParam("op")        // 0..16: mnemonic; 17: junk spellings
	mode := ICWS94
	if dialect == 0 {
		mode = ICWS88
	}
	cfg := NewQuickConfig(mode, M, 8, 100, 1)
	c, err := newCompiler(nil, WarriorData{}, cfg)
	vAssert("compiler-created", err == nil)
	c.loadSymbols()

	// spellings of the op field: letter case x (bare | .modifier)
	var spell []string
	var wantOp []OpCode
	var wantMod []int // -1: default modifier
	if opIdx < 17 {
		base := vMnemonics[opIdx]
		for _, cs := range []string{base, vUpper(base), vMixed(base)} {
			spell = append(spell, cs)
			wantOp = append(wantOp, vMnemonicOps[opIdx])
			wantMod = append(wantMod, -1)
			for mi, mn := range vModifierNames {
				spell = append(spell, cs+"."+mn, cs+"."+vUpper(mn))
				wantOp = append(wantOp, vMnemonicOps[opIdx], vMnemonicOps[opIdx])
				wantMod = append(wantMod, mi, mi)
			}
		}
	} else {
		spell = []string{"foo", "mov.q", "xyz.a", "dat.", ".a", "mo", "movv", "dat.a.b", ""}
		for range spell {
			wantOp = append(wantOp, 0)
			wantMod = append(wantMod, -2) // must be rejected
		}
	}
	k := 0
	if vParamOr("values", 0) == 0 {
		k = vPick("spelling", 0, len(spell)-1)
	}
	am := vChoose("amode", 10) - 1 // -1: omitted, 8: junk
	bm := vChoose("bmode", 10) - 1
	hasB := vPick("hasB", 0, 1) == 1
	vPrune(false)
	// operand values: fixed here (all spellings x modes); C06_values varies
	// the values for a fixed spelling
	mags := []int{0, 1, 7, int(M) - 1, int(M), int(M) + 1, 2*int(M) + 3, 1<<31 - 1, 1 << 31}
	aneg, bneg := false, true
	amag, bmag := 1, int(M)+2
	if vParamOr("values", 0) == 1 {
		aneg, bneg = vPick("aneg", 0, 1) == 1, vPick("bneg", 0, 1) == 1
		amag, bmag = mags[vPick("amag", 0, len(mags)-1)], mags[vPick("bmag", 0, len(mags)-1)]
	}
	modeTable := []string{"", "$", "#", "*", "@", "{", "<", "}", ">", "!"}
	modeStr := func(m int) string { return modeTable[m+1] }
	line := sourceLine{typ: lineInstruction, op: spell[k], amode: modeStr(am), bmode: modeStr(bm)}
	line.a = vOperand(aneg, amag)
	if hasB {
		line.b = vOperand(bneg, bmag)
	} else {
		vAssume(bm == -1)
	}
	ins, err := c.assembleLine(line)
	vReach("done")
	aval, bval := amag, bmag
	if aneg {
		aval = -amag
	}
	if bneg {
		bval = -bmag
	}
	// values outside int32 cannot be evaluated (the evaluator parses 32 bits)
	fits := func(v int) bool { return v >= -(1<<31) && v <= (1<<31)-1 }
	undefined := wantMod[k] == -2 || am == 8 || bm == 8
	if err != nil {
		vReach("rejected")
		if dialect == 1 {
			vAssert("94-rejects-only-undefined-spellings", undefined || !fits(aval) || (hasB && !fits(bval)))
		}
		return
	}
	vReach("accepted")
	vAssert("accepted-spelling-is-defined", !undefined)
	// --- C06: structural well-formedness
	vAssert("fields-below-M", ins.A < M && ins.B < M)
	vAssert("data-model", ins.Op <= 16 && ins.OpMode <= 6 && ins.AMode <= 7 && ins.BMode <= 7)
	if dialect == 0 {
		ok, md := refLegal88(ins.Op, ins.AMode, ins.BMode)
		vAssert("88-only-legal-instructions", ok)
		vAssert("88-implied-modifier", !ok || ins.OpMode == md)
	}
	// --- C03/K3: the instruction denoted by the line
	if undefined {
		return
	}
	wa, wb := DIRECT, DIRECT
	if dialect == 0 && wantOp[k] == DAT {
		wa, wb = IMMEDIATE, IMMEDIATE
	}
	if am >= 0 {
		wa = AddressMode(am)
	}
	if bm >= 0 {
		wb = AddressMode(bm)
	}
	wA, wB := vReduce(aval, M), vReduce(bval, M)
	if !hasB {
		if wantOp[k] == DAT {
			// a lone operand of DAT lands in the B field, A becomes #0
			wb, wB = wa, wA
			wa, wA = IMMEDIATE, 0
		} else {
			wb, wB = DIRECT, 0
			if dialect == 0 {
				wb = DIRECT
			}
		}
	}
	vAssert("denoted-opcode", ins.Op == wantOp[k])
	vAssert("denoted-modes", ins.AMode == wa && ins.BMode == wb)
	vAssert("denoted-fields", ins.A == wA && ins.B == wB)
	if dialect == 1 {
		if wantMod[k] >= 0 {
			vAssert("denoted-modifier", ins.OpMode == OpMode(wantMod[k]))
		} else {
			vAssert("default-modifier", ins.OpMode == refDefault94(wantOp[k], wa, wb))
		}
	}
	vObserve("op", uint64(ins.Op))
	vObserve("opmode", uint64(ins.OpMode))
	vObserve("a", uint64(ins.A))
	vObserve("b", uint64(ins.B))
}

// program level: entry point inside the code, length within the limit
func VerifHarness_C06_program() {
	M := Address(vParam("M"))
	n := vParam("n")         // instruction lines
	maxLen := vParam("max")  // configured maximum length
	dirKind := vParam("dir") // 0: none, 1: org X, 2: end X, 3: end (no operand)
	cfg := NewQuickConfig(ICWS94, M, 8, 100, Address(maxLen))
	var lines []sourceLine
	startMag := vInt("start")
	vAssume(startMag >= 0)
	vAssume(startMag <= 1<<20)
	startTok := []token{{tokNumber, vDec(startMag)}}
	if vBool("startneg") {
		startTok = append([]token{{tokSymbol, "-"}}, startTok...)
	}
	if dirKind == 1 {
		lines = append(lines, sourceLine{typ: linePseudoOp, op: "org", a: startTok})
	}
	for i := 0; i < n; i++ {
		v := vInt("v")
		vAssume(v >= 0)
		vAssume(v <= 1<<20)
		lines = append(lines, sourceLine{typ: lineInstruction, codeLine: i, op: "dat", amode: "#", a: vOperand(false, 0), bmode: "#", b: vOperand(false, v)})
	}
	if dirKind == 2 {
		lines = append(lines, sourceLine{typ: linePseudoOp, op: "end", a: startTok})
	} else if dirKind == 3 {
		lines = append(lines, sourceLine{typ: linePseudoOp, op: "end"})
	}
	c, err := newCompiler(lines, WarriorData{Name: "x"}, cfg)
	vAssert("compiler-created", err == nil)
	w, err := c.compile()
	vReach("done")
	if err != nil {
		vAssert("error-means-no-warrior", w.Code == nil && w.Start == 0)
		vReach("rejected")
		return
	}
	vReach("accepted")
	vAssert("all-lines-assembled", len(w.Code) == n)
	vAssert("entry-point-inside-code", (len(w.Code) == 0 && w.Start == 0) || (w.Start >= 0 && w.Start < len(w.Code)))
	vAssert("length-within-maximum", len(w.Code) <= maxLen)
	vAssert("metadata-kept", w.Name == "x")
	vObserve("start", uint64(w.Start))
}
