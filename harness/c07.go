package gmars

// C07 — operand expressions evaluate as integer arithmetic.
// E1: the sign-rewriting stage preserves the denoted expression on every
// token sequence, and never leaves two signs adjacent.

func init() {
	vHarness["C07_signs"] = VerifHarness_C07_signs
}

// token classes of the sign stage
const (
	vkPlus = iota
	vkMinus
	vkOp    // other binary operator
	vkOpen  // (
	vkClose // )
	vkLit   // literal / name
)

func vSignTok(k int, n int) token {
	switch k {
	case vkPlus:
		return token{tokSymbol, "+"}
	case vkMinus:
		return token{tokSymbol, "-"}
	case vkOp:
		return token{tokSymbol, "*"}
	case vkOpen:
		return token{tokParenL, "("}
	case vkClose:
		return token{tokParenR, ")"}
	}
	return token{tokNumber, vDec(n)}
}

func vClassOf(t token) int {
	switch {
	case t.typ == tokSymbol && t.val == "+":
		return vkPlus
	case t.typ == tokSymbol && t.val == "-":
		return vkMinus
	case t.typ == tokSymbol:
		return vkOp
	case t.typ == tokParenL:
		return vkOpen
	case t.typ == tokParenR:
		return vkClose
	}
	return vkLit
}

// normal-form items: 0 unary minus, 1 binary plus, 2 binary minus, 3 other
// token (with its index among the non-sign tokens)
type vNF struct {
	kind int
	idx  int
}

// signNF: the reference normal form of sign runs (DESIGN.md appendix D)
func signNF(classes []int) []vNF {
	var out []vNF
	unary := true
	nonSign := 0
	i := 0
	for i < len(classes) {
		c := classes[i]
		if c == vkPlus || c == vkMinus {
			j := i
			for j < len(classes) && (classes[j] == vkPlus || classes[j] == vkMinus) {
				j++
			}
			if unary {
				neg := false
				for k := i; k < j; k++ {
					if classes[k] == vkMinus {
						neg = !neg
					}
				}
				if neg {
					out = append(out, vNF{0, 0})
				}
			} else {
				neg := classes[i] == vkMinus
				for k := i + 1; k < j; k++ {
					if classes[k] == vkMinus {
						neg = !neg
					}
				}
				if neg {
					out = append(out, vNF{2, 0})
				} else {
					out = append(out, vNF{1, 0})
				}
			}
			unary = true
			i = j
			continue
		}
		out = append(out, vNF{3, nonSign})
		nonSign++
		unary = !(c == vkLit || c == vkClose)
		i++
	}
	return out
}

func VerifHarness_C07_signs() {
	L := vParam("L")
	in := make([]token, L)
	classes := make([]int, L)
	for i := 0; i < L; i++ {
		k := vPick("tok", 0, 5)
		classes[i] = k
		in[i] = vSignTok(k, i)
	}
	// a sequence ending in a sign denotes nothing; the stage is only asked to
	// preserve meaning of sequences that end in an operand or parenthesis
	vAssume(L == 0 || (classes[L-1] != vkPlus && classes[L-1] != vkMinus && classes[L-1] != vkOp))
	out := flipDoubleNegatives(combineSigns(in))
	outc := make([]int, len(out))
	for i, t := range out {
		outc[i] = vClassOf(t)
	}
	want := signNF(classes)
	got := signNF(outc)
	same := len(want) == len(got)
	if same {
		for i := range want {
			if want[i] != got[i] {
				same = false
			}
		}
	}
	vAssert("sign-stage-preserves-meaning", same)
	// Go lexes "--" and "++" as one token: never adjacent in the output
	for i := 0; i+1 < len(outc); i++ {
		adj := (outc[i] == vkPlus && outc[i+1] == vkPlus) || (outc[i] == vkMinus && outc[i+1] == vkMinus)
		vAssert("no-adjacent-equal-signs", !adj)
	}
	// non-sign tokens survive in order
	k := 0
	for i := 0; i < L; i++ {
		if classes[i] == vkPlus || classes[i] == vkMinus {
			continue
		}
		for k < len(out) && (outc[k] == vkPlus || outc[k] == vkMinus) {
			k++
		}
		vAssert("non-sign-tokens-preserved", k < len(out) && out[k] == in[i])
		k++
	}
	vObserve("outlen", uint64(len(out)))
	vReach("end")
}

// ---------------------------------------------------------------------
// E2: the real evaluateExpression on generated well-formed expressions with
// symbolic literals equals a reference evaluator (usual precedence, left
// associativity, stacked unary signs); * / % are uninterpreted functions
// shared by both sides (exactness of Go's constant arithmetic is trusted).

func init() {
	vHarness["C07_glue"] = VerifHarness_C07_glue
	vHarness["C07_equ"] = VerifHarness_C07_equ
	vHarness["C07_assert"] = VerifHarness_C07_assert
	vHarness["C07_constants"] = VerifHarness_C07_constants
}

type vExpr struct {
	op    string // "" for a literal
	l, r  *vExpr
	lit   int
	signs string // unary sign run in front of this (sub)expression
	paren bool   // redundant parentheses around it
}

var vSignRuns = []string{"", "-", "+", "--", "-+-", "+-"}
var vBinOps = []string{"+", "-", "*", "/", "%"}

func vGenExpr(d int) *vExpr {
	e := &vExpr{}
	if d > 0 && vPick("isbin", 0, 1) == 1 {
		e.op = vBinOps[vPick("binop", 0, len(vBinOps)-1)]
		e.l = vGenExpr(d - 1)
		e.r = vGenExpr(d - 1)
	} else {
		e.lit = vInt("lit")
		vAssume(e.lit >= 0)
		vAssume(e.lit <= 100)
	}
	e.signs = vSignRuns[vPick("signs", 0, len(vSignRuns)-1)]
	e.paren = vPick("paren", 0, 1) == 1
	return e
}

func vPrec(op string) int {
	if op == "+" || op == "-" {
		return 1
	}
	return 2
}

// vRender renders e so that the usual grammar parses it back to e.
func vRender(e *vExpr, out []token) []token {
	for _, c := range e.signs {
		out = append(out, token{tokSymbol, string(c)})
	}
	// a signed binary expression needs parentheses, a literal does not
	need := e.paren || (e.op != "" && e.signs != "")
	if need {
		out = append(out, token{tokParenL, "("})
	}
	if e.op == "" {
		out = append(out, token{tokNumber, vDec(e.lit)})
	} else {
		wrapL := e.l.op != "" && e.l.signs == "" && !e.l.paren && vPrec(e.l.op) < vPrec(e.op)
		wrapR := e.r.op != "" && e.r.signs == "" && !e.r.paren && vPrec(e.r.op) <= vPrec(e.op)
		if wrapL {
			out = append(out, token{tokParenL, "("})
		}
		out = vRender(e.l, out)
		if wrapL {
			out = append(out, token{tokParenR, ")"})
		}
		out = append(out, token{tokSymbol, e.op})
		if wrapR {
			out = append(out, token{tokParenL, "("})
		}
		out = vRender(e.r, out)
		if wrapR {
			out = append(out, token{tokParenR, ")"})
		}
	}
	if need {
		out = append(out, token{tokParenR, ")"})
	}
	return out
}

// vRefEval: (value, division by zero somewhere)
func vRefEval(e *vExpr) (int, bool) {
	var v int
	dz := false
	if e.op == "" {
		v = e.lit
	} else {
		a, da := vRefEval(e.l)
		b, db := vRefEval(e.r)
		dz = vOr(da, db)
		switch e.op {
		case "+":
			v = a + b
		case "-":
			v = a - b
		case "*":
			v = vUF2("mul", a, b)
		case "/":
			dz = vOr(dz, b == 0)
			v = vUF2("div", a, b)
		default:
			dz = vOr(dz, b == 0)
			v = vUF2("rem", a, b)
		}
	}
	neg := false
	for _, c := range e.signs {
		if c == '-' {
			neg = !neg
		}
	}
	if neg {
		v = -v
	}
	return v, dz
}

func VerifHarness_C07_glue() {
	d := vParam("depth")
	e := vGenExpr(d)
	toks := vRender(e, nil)
	want, dz := vRefEval(e)
	vPrune(false)
	vAbstractArith(true)
	got, err := evaluateExpression(toks)
	vAbstractArith(false)
	vPrune(true)
	// only results inside 32 bits can be returned at all
	fits := vAnd(want >= -(1<<31), want <= (1<<31)-1)
	if err != nil {
		vAssert("error-only-for-zero-divisor-or-overflow", vOr(dz, !fits))
		vReach("rejected")
		return
	}
	vAssert("no-result-when-dividing-by-zero", !dz)
	vAssert("value-equals-reference", got == want)
	vObserve("value", uint64(got))
	vReach("accepted")
}

// a program is rejected exactly when one of its ;assert conditions is zero
func VerifHarness_C07_assert() {
	v := vPick("v", -3, 3)
	text := ";assert " + vDec(v)
	if vPick("form", 0, 1) == 1 {
		// the same value written as a difference
		text = ";assert 5-" + vDec(5-v)
	}
	lines := []sourceLine{
		{typ: lineComment, comment: text},
		{typ: lineInstruction, op: "dat", a: []token{{tokNumber, "0"}}},
	}
	// further assertions, before or after the instruction: the program is
	// rejected when any one of them is zero
	anyZero := v == 0
	extra := vPick("extra", 0, 2)
	for k := 0; k < extra; k++ {
		u := vPick("u", -1, 1)
		if u == 0 {
			anyZero = true
		}
		l := sourceLine{typ: lineComment, comment: ";assert " + vDec(u)}
		if vPick("where", 0, 1) == 0 {
			lines = append(lines, l)
		} else {
			lines = append([]sourceLine{lines[0], l}, lines[1:]...)
		}
	}
	c, _ := newCompiler(lines, WarriorData{}, ConfigNOP94)
	w, err := c.compile()
	if err != nil {
		vAssert("rejected-iff-assert-is-zero", anyZero)
		vReach("rejected")
		return
	}
	vAssert("rejected-iff-assert-is-zero", !anyZero)
	vAssert("assembled", len(w.Code) == 1)
	vReach("accepted")
}

// EQU names inside EQU values: the operand is evaluated as if every name
// were replaced by its parenthesis-free token list (textual substitution, as
// the assembler documents), whatever the position of the name in the value
func VerifHarness_C07_equ() {
	M := ConfigNOP94.CoreSize
	a := vInt("a")
	b := vInt("b")
	k := vInt("k")
	for _, x := range []int{a, b, k} {
		vAssume(x >= 0)
		vAssume(x <= 1000)
	}
	// inner value: one token, a sum, a signed number, a parenthesised sum
	var inner []token
	var innerVal func(mulBy int, left bool) int // value of "x*k" (left) or "k*x" under textual substitution
	switch vPick("inner", 0, 3) {
	case 0:
		inner = []token{tNum(a)}
		innerVal = func(m int, left bool) int { return a * m }
	case 1:
		inner = []token{tNum(a), tSym("+"), tNum(b)}
		innerVal = func(m int, left bool) int {
			if left {
				return a + b*m // a+b*k
			}
			return m*a + b // k*a+b
		}
	case 2:
		inner = []token{tSym("-"), tNum(a)}
		innerVal = func(m int, left bool) int { return -a * m }
	default:
		inner = []token{{tokParenL, "("}, tNum(a), tSym("+"), tNum(b), {tokParenR, ")"}}
		innerVal = func(m int, left bool) int { return (a + b) * m }
	}
	// outer value: the name first, last, or in the middle of the definition
	var outer []token
	want := 0
	switch vPick("outer", 0, 2) {
	case 0:
		outer = []token{tText("x"), tSym("*"), tNum(k)}
		want = innerVal(k, true)
	case 1:
		outer = []token{tNum(k), tSym("*"), tText("x")}
		want = innerVal(k, false)
	default:
		outer = []token{tNum(1), tSym("+"), tText("x"), tSym("+"), tNum(2)}
		want = 1 + innerVal(1, true) + 2
	}
	var t []token
	order := vPick("order", 0, 1)
	defX := append(append([]token{tText("x"), tText("equ")}, inner...), tNL)
	defY := append(append([]token{tText("y"), tText("equ")}, outer...), tNL)
	if order == 0 {
		t = append(append(t, defX...), defY...)
	} else {
		t = append(append(t, defY...), defX...)
	}
	t = append(t, tText("dat"), tSym("#"), tText("y"), tComma, tSym("#"), tText("x"), tNL, token{tokEOF, ""})
	vUnwind(400)
	vPrune(false)
	w, err := vCompileTokens(t, ConfigNOP94)
	vPrune(true)
	vAssert("assembles", err == nil)
	if err != nil {
		return
	}
	vAssert("one-instruction", len(w.Code) == 1)
	if len(w.Code) != 1 {
		return
	}
	vAssert("nested-equ-value", w.Code[0].A == vReduce(want, M))
	vAssert("inner-equ-value", w.Code[0].B == vReduce(innerVal(1, true), M))
	vObserve("a", uint64(w.Code[0].A))
	vReach("end")
}

// the predefined names equal the configuration's values
func VerifHarness_C07_constants() {
	cfgs := []SimulatorConfig{ConfigNOP94, ConfigKOTH88, ConfigICWS88, ConfigNopTiny, ConfigNop256, ConfigNopNano,
		NewQuickConfig(ICWS94, 3, 1, 1, 1), NewQuickConfig(ICWS94, 55440, 10000, 500000, 200)}
	cfg := cfgs[vPick("config", 0, len(cfgs)-1)]
	names := []string{"CORESIZE", "MAXLENGTH", "MAXPROCESSES", "MINDISTANCE"}
	wants := []Address{cfg.CoreSize, cfg.Length, cfg.Processes, cfg.Distance}
	k := vPick("name", 0, 3)
	lines := []sourceLine{{typ: lineInstruction, op: "dat", amode: "#", a: []token{{tokNumber, "0"}}, bmode: "#", b: []token{{tokText, names[k]}}}}
	c, err := newCompiler(lines, WarriorData{}, cfg)
	vAssert("compiler-created", err == nil)
	if err != nil {
		return
	}
	w, err := c.compile()
	vAssert("assembles", err == nil)
	if err != nil {
		return
	}
	vAssert("predefined-constant-value", w.Code[0].B == wants[k]%cfg.CoreSize)
	vObserve("b", uint64(w.Code[0].B))
	vReach("end")
}
