package gmars

// C07 — operand expressions evaluate as integer arithmetic.
// E1: the sign-rewriting stage preserves the denoted expression on every
// token sequence, and never leaves two signs adjacent.

func init() {
	vHarness["C07_signs"] = VerifHarness_C07_signs
}

// token classes of the sign stage
const (
	vkPlus = iota
	vkMinus
	vkOp    // other binary operator
	vkOpen  // (
	vkClose // )
	vkLit   // literal / name
)

func vSignTok(k int, n int) token {
	switch k {
	case vkPlus:
		return token{tokSymbol, "+"}
	case vkMinus:
		return token{tokSymbol, "-"}
	case vkOp:
		return token{tokSymbol, "*"}
	case vkOpen:
		return token{tokParenL, "("}
	case vkClose:
		return token{tokParenR, ")"}
	}
	return token{tokNumber, vDec(n)}
}

func vClassOf(t token) int {
	switch {
	case t.typ == tokSymbol && t.val == "+":
		return vkPlus
	case t.typ == tokSymbol && t.val == "-":
		return vkMinus
	case t.typ == tokSymbol:
		return vkOp
	case t.typ == tokParenL:
		return vkOpen
	case t.typ == tokParenR:
		return vkClose
	}
	return vkLit
}

// normal-form items: 0 unary minus, 1 binary plus, 2 binary minus, 3 other
// token (with its index among the non-sign tokens)
type vNF struct {
	kind int
	idx  int
}

// signNF: the reference normal form of sign runs (DESIGN.md appendix D)
func signNF(classes []int) []vNF {
	var out []vNF
	unary := true
	nonSign := 0
	i := 0
	for i < len(classes) {
		c := classes[i]
		if c == vkPlus || c == vkMinus {
			j := i
			for j < len(classes) && (classes[j] == vkPlus || classes[j] == vkMinus) {
				j++
			}
			if unary {
				neg := false
				for k := i; k < j; k++ {
					if classes[k] == vkMinus {
						neg = !neg
					}
				}
				if neg {
					out = append(out, vNF{0, 0})
				}
			} else {
				neg := classes[i] == vkMinus
				for k := i + 1; k < j; k++ {
					if classes[k] == vkMinus {
						neg = !neg
					}
				}
				if neg {
					out = append(out, vNF{2, 0})
				} else {
					out = append(out, vNF{1, 0})
				}
			}
			unary = true
			i = j
			continue
		}
		out = append(out, vNF{3, nonSign})
		nonSign++
		unary = !(c == vkLit || c == vkClose)
		i++
	}
	return out
}

func VerifHarness_C07_signs() {
	L := vParam("L")
	in := make([]token, L)
	classes := make([]int, L)
	for i := 0; i < L; i++ {
		k := vPick("tok", 0, 5)
		classes[i] = k
		in[i] = vSignTok(k, i)
	}
	// a sequence ending in a sign denotes nothing; the stage is only asked to
	// preserve meaning of sequences that end in an operand or parenthesis
	vAssume(L == 0 || (classes[L-1] != vkPlus && classes[L-1] != vkMinus && classes[L-1] != vkOp))
	out := flipDoubleNegatives(combineSigns(in))
	outc := make([]int, len(out))
	for i, t := range out {
		outc[i] = vClassOf(t)
	}
	want := signNF(classes)
	got := signNF(outc)
	same := len(want) == len(got)
	if same {
		for i := range want {
			if want[i] != got[i] {
				same = false
			}
		}
	}
	vAssert("sign-stage-preserves-meaning", same)
	// Go lexes "--" and "++" as one token: never adjacent in the output
	for i := 0; i+1 < len(outc); i++ {
		adj := (outc[i] == vkPlus && outc[i+1] == vkPlus) || (outc[i] == vkMinus && outc[i+1] == vkMinus)
		vAssert("no-adjacent-equal-signs", !adj)
	}
	// non-sign tokens survive in order
	k := 0
	for i := 0; i < L; i++ {
		if classes[i] == vkPlus || classes[i] == vkMinus {
			continue
		}
		for k < len(out) && (outc[k] == vkPlus || outc[k] == vkMinus) {
			k++
		}
		vAssert("non-sign-tokens-preserved", k < len(out) && out[k] == in[i])
		k++
	}
	vObserve("outlen", uint64(len(out)))
	vReach("end")
}
