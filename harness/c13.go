package gmars

// C13 — any sequence of simulator API calls behaves like the documented
// state machine (DESIGN.md appendix B), never panics, and Reset followed by
// re-spawning is indistinguishable from a fresh simulator.

func init() {
	vHarness["C13_sequence"] = VerifHarness_C13_sequence
	vHarness["C13_reset_fresh"] = VerifHarness_C13_reset_fresh
	vHarness["C13_respawn"] = VerifHarness_C13_respawn
	vHarness["C13_inapplicable"] = VerifHarness_C13_inapplicable
}

// vSnap deep-copies any simulator state (queues may be nil).
func vSnap(s *reportSim) *reportSim {
	c := vMkSim(s.m, s.readLimit, s.writeLimit, s.maxProcs, s.maxCycles)
	for i := Address(0); i < s.m; i++ {
		c.mem[i] = s.mem[i]
	}
	for _, w := range s.warriors {
		w2 := &warrior{data: w.data, sim: c, index: w.index, state: w.state}
		if w.pq != nil {
			w2.pq = newProcessQueue(w.pq.size)
			for i := Address(0); i < w.pq.size; i++ {
				w2.pq.queue[i] = w.pq.queue[i]
			}
			w2.pq.start, w2.pq.length, w2.pq.end = w.pq.start, w.pq.length, w.pq.end
		}
		c.warriors = append(c.warriors, w2)
	}
	c.warriorCount = s.warriorCount
	c.warriorLivingCount = s.warriorLivingCount
	c.cycleCount = s.cycleCount
	c.warriorIndex = s.warriorIndex
	return c
}

// vAssertUnchanged asserts that the observable state of a equals snapshot b.
func vAssertUnchanged(id string, a, b *reportSim) {
	vAssert(id, len(a.warriors) == len(b.warriors))
	vAssert(id, vAnd(a.warriorCount == b.warriorCount, vAnd(a.warriorLivingCount == b.warriorLivingCount, a.cycleCount == b.cycleCount)))
	for i := Address(0); i < a.m; i++ {
		vAssert(id, vSameInstr(a.mem[i], b.mem[i]))
	}
	for wi, w1 := range a.warriors {
		if wi >= len(b.warriors) {
			break
		}
		w2 := b.warriors[wi]
		vAssert(id, w1.state == w2.state)
		vAssert(id, (w1.pq == nil) == (w2.pq == nil))
		if w1.pq != nil {
			if w2.pq != nil {
				vAssert(id, w1.pq.length == w2.pq.length)
				for i := Address(0); i < w1.pq.size; i++ {
					vAssert(id, vImplies(i < w1.pq.length, w1.pq.queue[(w1.pq.start+i)%w1.pq.size] == w2.pq.queue[(w2.pq.start+i)%w2.pq.size]))
				}
			}
		}
	}
}

// vBookkeeping asserts the relations every reachable API state satisfies.
func vBookkeeping(s *reportSim) {
	vAssert("count-is-number-of-warriors", s.warriorCount == len(s.warriors))
	alive := 0
	for _, w := range s.warriors {
		alive += vIteInt(w.state == WarriorAlive, 1, 0)
		if w.pq != nil {
			vAssert("alive-iff-tasks", vImplies(w.state == WarriorAlive, w.pq.length >= 1))
			vAssert("process-limit", w.pq.length <= s.maxProcs)
			for i := Address(0); i < w.pq.size; i++ {
				vAssert("queued-pc-below-M", vImplies(i < w.pq.length, w.pq.queue[(w.pq.start+i)%w.pq.size] < s.m))
			}
		} else {
			vAssert("alive-iff-tasks", w.state != WarriorAlive)
		}
	}
	vAssert("living-count", s.warriorLivingCount == alive)
	vAssert("cycle-limit", s.cycleCount <= s.maxCycles)
}

func vNewWarriorData(M Address) *WarriorData {
	L := vParamOr("codelen", 0)
	if L == 0 {
		L = vPick("codelen", 1, 2)
	}
	d := &WarriorData{Name: "w", Code: make([]Instruction, L)}
	for i := 0; i < L; i++ {
		d.Code[i] = vHavocInstr(M)
	}
	d.Start = vInt("start")
	vAssume(d.Start >= 0)
	vAssume(d.Start < L)
	return d
}

func vPickOffset(M Address) Address {
	// any offset below 2^16 (0, M-1, M and 2M+3 are inside)
	o := Address(vU64("off"))
	vAssume(o < 1<<16)
	return o
}

// steppable: a battle in progress that has not reached its cycle limit
func vSteppable(s *reportSim) bool {
	n := len(s.warriors)
	prog := vOr(vAnd(n == 1, s.warriorLivingCount == 1), vAnd(n > 1, s.warriorLivingCount >= 2))
	return vAnd(prog, s.cycleCount < s.maxCycles)
}

func vApiCall(sim *reportSim, held *[]*warrior, M Address, maxc Address) {
	snap := vSnap(sim)
	count := len(sim.warriors)
	switch vPick("call", 0, 7) {
	case 0: // AddWarrior
		d := vNewWarriorData(M)
		w, err := sim.AddWarrior(d)
		vAssert("add-ok", err == nil)
		ww := w.(*warrior)
		*held = append(*held, ww)
		vAssert("add-appends", vAnd(len(sim.warriors) == count+1, sim.warriors[count] == ww))
		vAssert("added-not-alive", vAnd(!w.Alive(), len(w.Queue()) == 0))
		vAssert("add-keeps-length", w.Length() == len(d.Code))
		// nothing else changes
		sim.warriors = sim.warriors[:count]
		sim.warriorCount--
		vAssertUnchanged("add-changes-nothing-else", sim, snap)
		sim.warriors = sim.warriors[:count+1]
		sim.warriorCount++
	case 1: // SpawnWarrior
		i := vPick("wi", -2, count+2)
		off := vPickOffset(M)
		err := sim.SpawnWarrior(i, off)
		applicable := false
		if i >= 0 {
			if i < count {
				applicable = snap.warriors[i].state != WarriorAlive
			}
		}
		if !applicable {
			vAssert("inapplicable-spawn-errors", err != nil)
			vAssertUnchanged("inapplicable-spawn-changes-nothing", sim, snap)
		} else {
			vAssert("applicable-spawn-ok", err == nil)
			w := sim.warriors[i]
			vAssert("spawned-alive", w.state == WarriorAlive)
			vAssert("spawned-one-task", vAnd(w.pq.length == 1, w.pq.queue[w.pq.start] == (off+Address(w.data.Start))%M))
			vAssert("spawn-living-count", sim.warriorLivingCount == snap.warriorLivingCount+1)
			L := Address(len(w.data.Code))
			for a := Address(0); a < M; a++ {
				d := (a + M - off%M) % M
				if d < L {
					vAssert("spawn-loads-code", vSameInstr(sim.mem[a], w.data.Code[d]))
				} else {
					vAssert("spawn-keeps-other-cells", vSameInstr(sim.mem[a], snap.mem[a]))
				}
			}
			vAssert("spawn-keeps-cycle", sim.cycleCount == snap.cycleCount)
		}
	case 2: // RunCycle
		steppable := vSteppable(snap)
		ref := vSnap(snap)
		vUnwind(8)
		vPrune(false)
		vAbstractArith(true)
		r := sim.RunCycle()
		vAbstractArith(false)
		vPrune(true)
		vUnwind(64)
		if steppable {
			tr := make([]Address, count)
			rn := make([]bool, count)
			vPrune(false)
			vAbstractArith(true)
			r2 := refCycle(ref, tr, rn, false)
			vAbstractArith(false)
			vPrune(true)
			vAssert("cycle-matches-model", r == r2)
			vAssertUnchanged("cycle-matches-model", sim, ref)
		} else {
			vAssertUnchanged("inapplicable-cycle-changes-nothing", sim, snap)
		}
	case 3: // Run
		steppable := vSteppable(snap)
		ref := vSnap(snap)
		vUnwind(int(maxc) + 2)
		vPrune(false)
		vAbstractArith(true)
		res := sim.Run()
		vAbstractArith(false)
		vPrune(true)
		vUnwind(64)
		vAssert("run-result-shape", vOr(vAnd(count == 0, res == nil), len(res) == count))
		for i := 0; i < len(res); i++ {
			if i < count {
				vAssert("run-result-is-alive-flag", res[i] == (sim.warriors[i].state == WarriorAlive))
			}
		}
		if steppable {
			tr := make([]Address, count)
			rn := make([]bool, count)
			vUnwind(int(maxc) + 2)
			vPrune(false)
			vAbstractArith(true)
			for ref.cycleCount < ref.maxCycles {
				alive := refCycle(ref, tr, rn, false)
				if count == 1 {
					if alive == 0 {
						break
					}
				} else if alive <= 1 {
					break
				}
			}
			vAbstractArith(false)
			vPrune(true)
			vUnwind(64)
			vAssertUnchanged("run-matches-model", sim, ref)
		} else {
			vAssertUnchanged("inapplicable-run-changes-nothing", sim, snap)
		}
	case 4: // Reset
		sim.Reset()
		vAssert("reset-counters", vAnd(sim.cycleCount == 0, sim.warriorLivingCount == 0))
		for a := Address(0); a < M; a++ {
			vAssert("reset-clears-core", vSameInstr(sim.mem[a], Instruction{}))
		}
		for _, w := range sim.warriors {
			vAssert("reset-unspawns", !w.Alive())
		}
		vAssert("reset-keeps-warriors", len(sim.warriors) == count)
	case 5: // GetWarrior
		i := vPick("gi", -2, count+2)
		w := sim.GetWarrior(i)
		if i >= 0 {
			if i < count {
				vAssert("get-warrior-known", w == Warrior(sim.warriors[i]))
				vAssertUnchanged("query-changes-nothing", sim, snap)
				return
			}
		}
		vAssert("get-warrior-unknown-is-nil", w == nil)
		vAssertUnchanged("query-changes-nothing", sim, snap)
	case 6: // GetMem
		a := Address(vU64("addr"))
		vAssume(a < 1<<16)
		ins := sim.GetMem(a)
		vAssert("get-mem", vSameInstr(ins, sim.mem[a%M]))
		vAssertUnchanged("query-changes-nothing", sim, snap)
	case 7: // warrior queries
		if len(*held) == 0 {
			return
		}
		w := (*held)[vPick("hi", 0, len(*held)-1)]
		alive := w.Alive()
		q := w.Queue()
		pc, err := w.NextPC()
		vAssert("length-query", w.Length() == len(w.data.Code))
		vAssert("alive-query", alive == (w.state == WarriorAlive))
		if !alive {
			if w.pq == nil {
				vAssert("never-started-next-pc-errors", err != nil)
				vAssert("never-started-queue-empty", len(q) == 0)
			}
		} else {
			vAssert("next-pc-of-living", vAnd(err == nil, pc == w.pq.queue[w.pq.start]))
			vAssert("queue-query-length", Address(len(q)) == w.pq.length)
		}
		vAssertUnchanged("query-changes-nothing", sim, snap)
	}
}

func VerifHarness_C13_sequence() {
	M := Address(vParam("M"))
	P := Address(vParam("P"))
	L := vParam("L")
	maxc := Address(vParam("maxCycles"))
	cfg := NewQuickConfig(ICWS94, M, P, maxc, 1)
	sim, err := newReportSim(cfg)
	vAssert("create-ok", err == nil)
	held := []*warrior{}
	// optional prefix that brings the simulator into a battle quickly
	pre := vParamOr("prefix", 0)
	for i := 0; i < pre; i++ {
		d := vNewWarriorData(M)
		w, _ := sim.AddWarrior(d)
		held = append(held, w.(*warrior))
		sim.SpawnWarrior(i, vPickOffset(M))
	}
	for step := 0; step < L; step++ {
		vApiCall(sim, &held, M, maxc)
		vBookkeeping(sim)
	}
	vReach("end")
}

// after any prefix, Reset + re-spawning everything is indistinguishable
// from a fresh simulator with the same warriors spawned at the same places
func VerifHarness_C13_reset_fresh() {
	M := Address(vParam("M"))
	P := Address(vParam("P"))
	n := vParam("n")
	steps := vParam("steps")
	maxc := Address(vParam("maxCycles"))
	cfg := NewQuickConfig(ICWS94, M, P, maxc, 1)
	s1, _ := newReportSim(cfg)
	s2, _ := newReportSim(cfg)
	datas := make([]*WarriorData, n)
	for i := 0; i < n; i++ {
		datas[i] = vNewWarriorData(M)
		s1.AddWarrior(datas[i])
		s2.AddWarrior(datas[i])
	}
	// history on s1: spawn some, run some cycles
	for i := 0; i < n; i++ {
		if vPick("prespawn", 0, 1) == 1 {
			s1.SpawnWarrior(i, vPickOffset(M))
		}
	}
	vUnwind(8)
	vPrune(false)
	vAbstractArith(true)
	for k := 0; k < steps; k++ {
		s1.RunCycle()
	}
	vAbstractArith(false)
	vPrune(true)
	vUnwind(64)
	s1.Reset()
	for i := 0; i < n; i++ {
		// not every warrior takes part in the next battle
		if vParamOr("subset", 0) == 1 && vPick("respawn", 0, 1) == 0 {
			continue
		}
		off := vPickOffset(M)
		e1 := s1.SpawnWarrior(i, off)
		e2 := s2.SpawnWarrior(i, off)
		vAssert("respawn-ok", vAnd(e1 == nil, e2 == nil))
	}
	// observable through the Warrior interface
	for i := 0; i < n; i++ {
		q1, q2 := s1.warriors[i].Queue(), s2.warriors[i].Queue()
		vAssert("reset-equals-fresh-queue-query", len(q1) == len(q2))
		vAssert("reset-equals-fresh-alive-query", s1.warriors[i].Alive() == s2.warriors[i].Alive())
	}
	if vParamOr("subset", 0) == 0 {
		vAssertUnchanged("reset-equals-fresh", s1, s2)
	} else {
		vAssert("reset-equals-fresh", vAnd(s1.warriorLivingCount == s2.warriorLivingCount, s1.cycleCount == s2.cycleCount))
		for a := Address(0); a < M; a++ {
			vAssert("reset-equals-fresh", vSameInstr(s1.mem[a], s2.mem[a]))
		}
	}
	vBookkeeping(s1)
	// and they stay equal under a continuation
	vUnwind(8)
	vPrune(false)
	vAbstractArith(true)
	r1 := s1.RunCycle()
	r2 := s2.RunCycle()
	vAbstractArith(false)
	vPrune(true)
	vUnwind(64)
	vAssert("reset-equals-fresh-after-cycle", r1 == r2)
	if vParamOr("subset", 0) == 0 {
		vAssertUnchanged("reset-equals-fresh-after-cycle", s1, s2)
	} else {
		vAssert("reset-equals-fresh-after-cycle", vAnd(s1.warriorLivingCount == s2.warriorLivingCount, s1.cycleCount == s2.cycleCount))
		for a := Address(0); a < M; a++ {
			vAssert("reset-equals-fresh-after-cycle", vSameInstr(s1.mem[a], s2.mem[a]))
		}
		for i := 0; i < n; i++ {
			vAssert("reset-equals-fresh-after-cycle", s1.warriors[i].Alive() == s2.warriors[i].Alive())
			vAssert("reset-equals-fresh-after-cycle", len(s1.warriors[i].Queue()) == len(s2.warriors[i].Queue()))
		}
	}
	vReach("end")
}

// stepping or running a finished, empty or never-started battle changes
// nothing and returns promptly — from an arbitrary state of the shape the
// API can reach (some warriors never spawned: no queue yet)
// SpawnWarrior in the middle of things: from an arbitrary state (battle in
// progress, decided or over; warriors added, alive or dead) a warrior that
// is not alive - never started or dead - is (re)started with one task at
// (offset + entry point) mod M and counts as living again; a living one is
// refused and nothing changes
func VerifHarness_C13_respawn() {
	M := Address(vParam("M"))
	P := Address(vParam("P"))
	n := vParam("n")
	s := vMkSim(M, M, M, P, 10)
	vHavocCore(s)
	for i := 0; i < n; i++ {
		w := vHavocWarrior(s, P)
		w.data = &WarriorData{Code: []Instruction{vHavocInstr(M)}, Start: 0}
	}
	s.warriorLivingCount = vAliveCount(s)
	s.cycleCount = Address(vU64("cycle"))
	vAssume(s.cycleCount <= 10)
	wi := vPick("wi", 0, n-1)
	w := s.warriors[wi]
	wasAlive := w.state == WarriorAlive
	living := s.warriorLivingCount
	off := Address(vU64("off"))
	vAssume(off < 2*M)
	snap := vSnap(s)
	err := s.SpawnWarrior(wi, off)
	if wasAlive {
		vAssert("living-warrior-refused", err != nil)
		vAssertUnchanged("refused-spawn-changes-nothing", s, snap)
		vReach("refused")
		return
	}
	vAssert("dead-or-new-warrior-started", err == nil)
	if err != nil {
		return
	}
	q := w.Queue()
	vAssert("spawned-one-task", len(q) == 1 && q[0] == off%M)
	vAssert("spawned-alive", w.Alive() && s.warriorLivingCount == living+1)
	vAssert("code-loaded", vSameInstr(s.mem[off%M], w.data.Code[0]))
	vReach("started")
}

func VerifHarness_C13_inapplicable() {
	M := Address(vParam("M"))
	P := Address(vParam("P"))
	n := vParam("n")
	maxc := Address(vParam("maxCycles"))
	s := vMkSim(M, M, M, P, maxc)
	vHavocCore(s)
	for i := 0; i < n; i++ {
		w := vHavocWarrior(s, P)
		if vPick("neverSpawned", 0, 1) == 1 {
			w.pq = nil
			w.state = WarriorAdded
		}
	}
	s.warriorLivingCount = vAliveCount(s)
	s.cycleCount = Address(vU64("cycle"))
	vAssume(s.cycleCount <= maxc)
	vAssume(!vSteppable(s))
	snap := vSnap(s)
	vUnwind(int(maxc) + 2)
	vPrune(false)
	vAbstractArith(true)
	if vParam("run") == 1 {
		res := s.Run()
		vAssert("run-result-shape", vOr(vAnd(n == 0, res == nil), len(res) == n))
		for i := 0; i < len(res) && i < n; i++ {
			vAssert("run-result-is-alive-flag", res[i] == (s.warriors[i].state == WarriorAlive))
		}
	} else {
		// the documented return value: nothing left to run (cycle limit
		// reached or nobody alive) gives 0, a decided battle its survivors
		living := s.warriorLivingCount
		over := s.cycleCount >= s.maxCycles || living < 1
		ret := s.RunCycle()
		vAssert("runcycle-returns-zero-when-over", vImplies(over, ret == 0))
		vAssert("runcycle-returns-survivors-when-decided", vImplies(!over, ret == living))
	}
	vAbstractArith(false)
	vPrune(true)
	vUnwind(64)
	vAssertUnchanged("inapplicable-step-changes-nothing", s, snap)
	vReach("end")
}
