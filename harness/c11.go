package gmars

// C11 — no access beyond the configured read and write distances.

func init() {
	vHarness["C11_step"] = VerifHarness_C11_step
	vHarness["C11_step_canary"] = VerifHarness_C11_step_canary
	vHarness["C11_nolimit"] = VerifHarness_C11_nolimit
}

// vSetForm pins the addressing modes of the executed instruction (the case
// split shared by all one-step harnesses) and, optionally, op and modifier.
func vSetForm(s *reportSim, pc Address) {
	if k := vParamOr("op", -1); k >= 0 {
		s.mem[pc].Op = OpCode(k)
	}
	if k := vParamOr("opmode", -1); k >= 0 {
		s.mem[pc].OpMode = OpMode(k)
	}
	if k := vParamOr("amode", -1); k >= 0 {
		s.mem[pc].AMode = AddressMode(k)
	}
	if k := vParamOr("bmode", -1); k >= 0 {
		s.mem[pc].BMode = AddressMode(k)
	}
}

func vC11(canary bool) {
	M := Address(vParam("M"))
	P := Address(vParam("P"))
	R := Address(vU64("R"))
	W := Address(vU64("W"))
	vAssume(R >= 1)
	vAssume(R <= M)
	vAssume(W >= 1)
	vAssume(W <= M)
	s := vMkSim(M, R, W, P, 100)
	w := vMkWarrior(s, P)
	rec := vNewRecorder(M, 1)
	s.reporters = []Reporter{rec}
	vHavocCore(s)
	vHavocQueue(w.pq, M, 0, P-1)
	pc := Address(vU64("pc"))
	vAssume(pc < M)
	vSetForm(s, pc)

	before := make([]Instruction, M)
	for i := Address(0); i < M; i++ {
		before[i] = s.mem[i]
	}
	n0 := w.pq.length

	vPrune(false)
	vAbstractArith(true)
	s.exec(pc, w)
	vAbstractArith(false)
	vPrune(true)

	wlim := W / 2
	rlim := R / 2
	if canary {
		// deliberately too strict: one cell less than the rule allows
		wlim = Address(vIte(wlim > 0, uint64(wlim-1), 0))
	}
	for a := Address(0); a < M; a++ {
		changed := !vSameInstr(s.mem[a], before[a])
		vAssert("write-limit", vImplies(changed, vDist(a, pc, M) <= wlim))
		// operand fetches the simulator reports (SEQ/SNE/SLT/CMP reads)
		vAssert("read-report-limit", vImplies(rec.read[a], vDist(a, pc, M) <= rlim))
	}
	// successors queued by this step: positions n0 .. length-1
	N1 := (pc + 1) % M
	N2 := (pc + 2) % M
	for j := Address(0); j < 2; j++ {
		e := w.pq.queue[(w.pq.start+n0+j)%w.pq.size]
		isNew := n0+j < w.pq.length
		okv := vOr(vOr(e == N1, e == N2), vDist(e, pc, M) <= rlim)
		vAssert("read-limit", vImplies(isNew, okv))
	}
	vAssert("queue-grows-by-at-most-2", vAnd(w.pq.length >= n0, w.pq.length <= n0+2))
	vObserveSim(s)
	vReach("end")
}

func VerifHarness_C11_step()        { vC11(false) }
func VerifHarness_C11_step_canary() { vC11(true) }

// with limits equal to the core size the step equals the step computed with
// limits ignored (reference with folding disabled)
func VerifHarness_C11_nolimit() {
	M := Address(vParam("M"))
	P := Address(vParam("P"))
	s := vMkSim(M, M, M, P, 100)
	w := vMkWarrior(s, P)
	vHavocCore(s)
	vHavocQueue(w.pq, M, 0, P-1)
	pc := Address(vU64("pc"))
	vAssume(pc < M)
	vSetForm(s, pc)
	ref := vRefFrom(s, w)
	ref.nofold = true
	vPrune(false)
	vAbstractArith(true)
	s.exec(pc, w)
	ref.step(pc)
	vAbstractArith(false)
	vPrune(true)
	vCompareWithRef(s, w, ref)
	vObserveSim(s)
	vReach("end")
}
