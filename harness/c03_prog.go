package gmars

// C03 K4/K5 — labels, EQU substitution (including forward use), ORG/END
// entry point, metadata comments; independent of label spelling, colon
// suffixes, labels on their own line, comment and blank lines, letter case,
// spacing and EQU placement.

func init() {
	vHarness["C03_labels"] = VerifHarness_C03_labels
	vHarness["C03_symbols"] = VerifHarness_C03_symbols
	vHarness["C03_text"] = VerifHarness_C03_text
}

// The abstract program (M = core size, e and v symbolic literals):
//
//	x equ e
//	a: mov.i #x, b      ; forward reference to b, EQU use
//	   dat   #v, a      ; backward reference to a
//	b: jmp   a, x+1
//	   nop   -w, -w-1
//	   entry: none | org b | end a | end (no operand)
//
// meaning: [MOV.I #e, $2] [DAT.F #v, #-1] [JMP.B $-2, $e+1] [NOP.B $-w, $-w-1], entry 0 | 2 | 0 | 0.
func vC03meaning(M Address, e, v int, entry int) ([]Instruction, int) {
	return vC03meaningW(M, e, v, -1, entry)
}

func vC03meaningW(M Address, e, v, w int, entry int) ([]Instruction, int) {
	m := int(M)
	red := func(x int) Address { return Address(((x % m) + m) % m) }
	code := []Instruction{
		{Op: MOV, OpMode: I, AMode: IMMEDIATE, A: red(e), BMode: DIRECT, B: red(2)},
		{Op: DAT, OpMode: F, AMode: IMMEDIATE, A: red(v), BMode: IMMEDIATE, B: red(-1)},
		{Op: JMP, OpMode: B, AMode: DIRECT, A: red(-2), BMode: DIRECT, B: red(e + 1)},
	}
	if w >= 0 {
		code = append(code, Instruction{Op: NOP, OpMode: B, AMode: DIRECT, A: red(-w), BMode: DIRECT, B: red(-w - 1)})
	}
	start := 0
	if entry == 1 {
		start = 2
	}
	return code, start
}

func VerifHarness_C03_symbols() {
	cfg := ConfigNOP94
	M := cfg.CoreSize
	e := vInt("e")
	vAssume(e >= 0)
	vAssume(e <= 100000)
	v := vInt("v")
	vAssume(v >= 0)
	vAssume(v <= 100000)
	entry := vParam("entry")       // 0 none, 1 org b, 2 end a, 3 bare end
	equPos := vPick("equPos", 0, 2) // before use, between, after everything
	colon := vPick("colon", 0, 1) == 1
	ownLine := vPick("ownLine", 0, 1) == 1
	filler := vPick("filler", 0, 2) // nothing, comment line, blank line
	style := vParam("style")
	names := [][3]string{{"a", "b", "x"}, {"loop", "target_2", "STEP"}}[style%2]
	la, lb, lx := names[0], names[1], names[2]
	ops := [][3]string{{"mov.i", "dat", "jmp"}, {"MOV.I", "DAT", "JMP"}, {"Mov.i", "Dat", "jMp"}}[style%3]

	var t []token
	label := func(n string) {
		t = append(t, tText(n))
		if colon {
			t = append(t, token{tokColon, ":"})
		}
		if ownLine {
			t = append(t, tNL)
		}
	}
	fill := func() {
		switch filler {
		case 1:
			t = append(t, token{tokComment, "; a remark"}, tNL)
		case 2:
			t = append(t, tNL)
		}
	}
	equ := func() { t = append(t, tText(lx), tText("equ"), tNum(e), tNL) }
	t = append(t, token{tokComment, ";name   Probe"}, tNL, token{tokComment, ";author Ann Author"}, tNL)
	if entry == 1 {
		t = append(t, tText("org"), tText(lb), tNL)
	}
	if equPos == 0 {
		equ()
	}
	label(la)
	t = append(t, tText(ops[0]), tSym("#"), tText(lx), tComma, tText(lb), tNL)
	fill()
	if equPos == 1 {
		equ()
	}
	t = append(t, tText(ops[1]), tSym("#"), tNum(v), tComma, tSym("#"), tText(la), tNL)
	fill()
	label(lb)
	t = append(t, tText(ops[2]), tText(la), tComma, tText(lx), tSym("+"), tNum(1), tNL)
	// negative operands, also below -M
	wv := vInt("w")
	vAssume(wv >= 0)
	vAssume(wv <= 100000)
	t = append(t, tText("nop"), tSym("-"), tNum(wv), tComma, tSym("-"), tNum(wv), tSym("-"), tNum(1), tNL)
	if equPos == 2 {
		equ()
	}
	switch entry {
	case 2:
		t = append(t, tText("end"), tText(la), tNL)
	case 3:
		t = append(t, tText("end"), tNL)
	}
	t = append(t, token{tokEOF, ""})

	vUnwind(400)
	w, err := vCompileTokens(t, cfg)
	vUnwind(64)
	vAssert("well-formed-program-assembles", err == nil)
	if err != nil {
		return
	}
	want, start := vC03meaningW(M, e, v, wv, entry)
	vAssert("denoted-length", len(w.Code) == len(want))
	if len(w.Code) != len(want) {
		return
	}
	for i := range want {
		vAssert("denoted-instruction", vSameInstr(w.Code[i], want[i]))
	}
	vAssert("denoted-entry-point", w.Start == start)
	vAssert("metadata-captured", w.Name == "Probe" && w.Author == "Ann Author")
	vObserve("start", uint64(w.Start))
	vObserve("a0", uint64(w.Code[0].A))
	vReach("end")
}

// labels inside expressions: a label stands for its (signed) offset from the
// referring instruction, also under / and %, directly or through an EQU
// defined after its use; a label on (or alone before) the END line stands
// for the address just past the last instruction
func VerifHarness_C03_labels() {
	cfg := ConfigNOP94
	M := cfg.CoreSize
	k0 := vPick("k0", 0, 1) // instructions before label a
	k1 := vPick("k1", 0, 2) // instructions between a and the referring line
	form := vParam("form")
	tailForm := vPick("tail", 0, 3) // 0 no END label, 1 on the END line, 2 alone before END, 3 alone with colon
	endArg := vPick("endArg", 0, 1) == 1
	lineB := k0 + 1 + k1
	n := lineB + 2
	ra := k0 - lineB // offset of a seen from the referring line (negative)
	rc := n - 1 - lineB
	var exprA []token
	wantA := 0
	switch form {
	case 0:
		exprA, wantA = []token{tText("a"), tSym("/"), tNum(2)}, ra/2
	case 1:
		exprA, wantA = []token{tText("a"), tSym("%"), tNum(3)}, ra%3
	case 2:
		exprA, wantA = []token{{tokParenL, "("}, tText("a"), tSym("-"), tNum(1), {tokParenR, ")"}, tSym("/"), tNum(2)}, (ra-1)/2
	case 3:
		exprA, wantA = []token{tText("half")}, ra/2 // half equ a/2, defined below
	case 4:
		exprA, wantA = []token{tNum(7), tSym("*"), tText("c"), tSym("/"), tNum(2), tSym("-"), tText("a"), tSym("*"), tNum(3)}, 7*rc/2-ra*3
	default:
		exprA, wantA = []token{tText("c"), tSym("-"), tText("a")}, rc-ra
	}
	var t []token
	for i := 0; i < k0; i++ {
		t = append(t, tText("nop"), tNum(0), tNL)
	}
	t = append(t, tText("a"), tText("dat"), tSym("#"), tNum(0), tComma, tSym("#"), tNum(0), tNL)
	for i := 0; i < k1; i++ {
		t = append(t, tText("nop"), tNum(0), tNL)
	}
	t = append(t, tText("b"), tText("mov.i"), tSym("#"))
	t = append(t, exprA...)
	t = append(t, tComma, tSym("#"))
	wantB := 0
	if tailForm != 0 {
		t = append(t, tText("tail"))
		wantB = n - lineB
	} else {
		t = append(t, tNum(0))
	}
	t = append(t, tNL)
	t = append(t, tText("c"), tText("dat"), tSym("#"), tNum(0), tComma, tSym("#"), tNum(0), tNL)
	if form == 3 {
		t = append(t, tText("half"), tText("equ"), tText("a"), tSym("/"), tNum(2), tNL)
	}
	switch tailForm {
	case 1:
		t = append(t, tText("tail"))
	case 2:
		t = append(t, tText("tail"), tNL)
	case 3:
		t = append(t, tText("tail"), token{tokColon, ":"}, tNL)
	}
	t = append(t, tText("end"))
	start := 0
	if endArg {
		t = append(t, tText("b"))
		start = lineB
	}
	t = append(t, tNL, token{tokEOF, ""})
	vUnwind(400)
	w, err := vCompileTokens(t, cfg)
	vUnwind(64)
	vAssert("well-formed-program-assembles", err == nil)
	if err != nil {
		return
	}
	vAssert("denoted-length", len(w.Code) == n)
	if len(w.Code) != n {
		return
	}
	vAssert("label-expression-value", w.Code[lineB].A == vReduce(wantA, M))
	vAssert("end-label-value", w.Code[lineB].B == vReduce(wantB, M))
	vAssert("denoted-entry-point", w.Start == start)
	vObserve("a", uint64(w.Code[lineB].A))
	vObserve("b", uint64(w.Code[lineB].B))
	vReach("end")
}

// the same program as text, through the real lexer: spacing, tabs, CR-LF,
// letter case, trailing comments
func VerifHarness_C03_text() {
	cfg := ConfigNOP94
	if vParam("dialect") == 0 {
		cfg = ConfigKOTH88
	}
	M := cfg.CoreSize
	e := []int{0, 8000, 12345}[vPick("e", 0, 2)]
	v := 8001
	entry := vPick("entry", 0, 3)
	sp := []string{" ", " \t "}[vPick("sp", 0, 1)]
	nl := []string{"\n", "\r\n"}[vPick("nl", 0, 1)]
	tail := []string{"", "\t; trailing remark"}[vPick("tail", 0, 1)]
	comma := []string{",", " , "}[vPick("comma", 0, 1)]
	finalNL := vPick("finalNL", 0, 1) == 1
	mov := "mov.i"
	if vParam("dialect") == 0 {
		mov = "mov" // '88: no modifiers; MOV #,$ implies .AB
	}
	text := ";name Probe" + nl + ";author Ann Author" + nl
	if entry == 1 {
		text += "org" + sp + "b" + nl
	}
	text += "x" + sp + "equ" + sp + vDec(e) + nl
	text += "a" + sp + mov + sp + "#x" + comma + "b" + tail + nl
	text += nl
	text += sp + "dat" + sp + "#" + vDec(v) + comma + "#a" + nl
	text += "b" + sp + "jmp" + sp + "a" + comma + "x+1" + tail
	switch entry {
	case 2:
		text += nl + "end" + sp + "a"
	case 3:
		text += nl + "end"
	}
	if finalNL {
		text += nl
	}
	vUnwind(1500)
	w, err := CompileWarrior(vTextReader(text), cfg)
	vAssert("well-formed-program-assembles", err == nil)
	if err != nil {
		vObserveStr("text", text)
		return
	}
	want, start := vC03meaning(M, e, v, entry)
	if vParam("dialect") == 0 {
		want[0].OpMode = AB
	}
	vAssert("denoted-length", len(w.Code) == len(want))
	if len(w.Code) != len(want) {
		return
	}
	for i := range want {
		vAssert("denoted-instruction", vSameInstr(w.Code[i], want[i]))
	}
	vAssert("denoted-entry-point", w.Start == start)
	vAssert("metadata-captured", w.Name == "Probe" && w.Author == "Ann Author")
	vObserveStr("text", text)
	vReach("end")
}
