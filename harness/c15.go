package gmars

// C15 — reports tell listeners about every change, at valid addresses.

func init() {
	vHarness["C15_step"] = VerifHarness_C15_step
	vHarness["C15_maytouch"] = VerifHarness_C15_maytouch
	vHarness["C15_cycle"] = VerifHarness_C15_cycle
	vHarness["C15_recorder"] = VerifHarness_C15_recorder
	vHarness["C15_spawn"] = VerifHarness_C15_spawn
}

func VerifHarness_C15_step()     { vC15step(false) }
func VerifHarness_C15_maytouch() { vC15step(true) }

// R1: one task with a recording listener attached. withRef adds the
// comparison of the reported cells with the reference's may-touch set (a
// two-implementation query, split by addressing modes like C01).
func vC15step(withRef bool) {
	M := Address(vParam("M"))
	P := Address(vParam("P"))
	R := Address(vU64("R"))
	W := Address(vU64("W"))
	vAssume(R >= 1)
	vAssume(R <= M)
	vAssume(W >= 1)
	vAssume(W <= M)
	s := vMkSim(M, R, W, P, 100)
	// the executing warrior is the second of two, so that a wrong index shows
	vMkWarrior(s, P)
	w := vMkWarrior(s, P)
	rec := vNewRecorder(M, 2)
	rec.expectWho = 1
	s.reporters = []Reporter{rec}
	vHavocCore(s)
	vHavocQueue(w.pq, M, 0, P-1)
	pc := Address(vU64("pc"))
	vAssume(pc < M)
	vSetForm(s, pc)
	before := make([]Instruction, M)
	for i := Address(0); i < M; i++ {
		before[i] = s.mem[i]
	}
	n0 := w.pq.length
	var ref *refSim
	if withRef {
		ref = vRefFrom(s, w)
	}

	vPrune(false)
	vAbstractArith(true)
	s.exec(pc, w)
	if withRef {
		ref.step(pc)
	}
	vAbstractArith(false)
	vPrune(true)

	for a := Address(0); a < M; a++ {
		changed := !vSameInstr(s.mem[a], before[a])
		flagged := vOr(rec.written[a], vOr(rec.inc[a], rec.dec[a]))
		vAssert("changed-cell-reported", vImplies(changed, flagged))
		if withRef {
			vAssert("reported-cell-may-be-touched", vImplies(flagged, ref.touched[a]))
		}
	}
	vAssert("report-address-below-M", !rec.badAddr)
	vAssert("report-warrior-index", vAnd(!rec.badIndex, !rec.wrongWho))
	vAssert("task-terminate-iff-no-successor", (rec.nTaskTerm >= 1) == (w.pq.length == n0))
	vAssert("at-most-one-task-terminate", rec.nTaskTerm <= 1)
	vAssert("no-warrior-terminate-inside-task", rec.nWarTerm == 0)
	vObserveSim(s)
	vObserve("nTaskTerm", uint64(rec.nTaskTerm))
	for a := Address(0); a < M; a++ {
		vObserveBool("written", rec.written[a])
		vObserveBool("inc", rec.inc[a])
		vObserveBool("dec", rec.dec[a])
	}
	vReach("end")
}

// R2: one cycle — every task is announced with its pc before it runs,
// warrior termination is reported exactly when a warrior dies, cycle
// start/end bracket completed cycles
func VerifHarness_C15_cycle() {
	M := Address(vParam("M"))
	P := Address(vParam("P"))
	n := vParam("n")
	s := vMkSim(M, M, M, P, 100)
	vHavocCore(s)
	for i := 0; i < n; i++ {
		vHavocWarrior(s, P)
	}
	s.warriorLivingCount = vAliveCount(s)
	s.cycleCount = Address(vU64("cycle"))
	vAssume(s.cycleCount <= 100)
	rec := vNewRecorder(M, n)
	s.reporters = []Reporter{rec}
	alive0 := s.warriorLivingCount
	cyc0 := s.cycleCount
	front := s.warriors[0].pq.queue[s.warriors[0].pq.start]

	vPrune(false)
	vAbstractArith(true)
	s.RunCycle()
	vAbstractArith(false)
	vPrune(true)

	deaths := alive0 - s.warriorLivingCount
	vAssert("warrior-terminate-iff-death", int(rec.nWarTerm) == deaths)
	vAssert("report-address-below-M", !rec.badAddr)
	vAssert("report-warrior-index", !rec.badIndex)
	vAssert("task-announced-first", vImplies(rec.seenTask, rec.firstIsPop))
	steppable := vAnd(cyc0 < 100, vOr(vAnd(n == 1, alive0 == 1), vAnd(n > 1, alive0 >= 2)))
	vAssert("one-pop-per-executed-task", vAnd(rec.nPop <= Address(n), vImplies(steppable, rec.nPop >= 1)))
	vAssert("no-report-when-not-steppable", vImplies(!steppable, vAnd(!rec.seenTask, vAnd(rec.nCycleStart == 0, rec.nCycleEnd == 0))))
	if n == 1 {
		vAssert("pop-carries-the-pc", vImplies(steppable, vAnd(rec.nPop == 1, rec.lastPop == front)))
	}
	completed := s.cycleCount != cyc0
	vAssert("cycle-end-iff-completed", (rec.nCycleEnd == 1) == completed)
	vAssert("cycle-start-when-anything-ran", vImplies(rec.nPop >= 1, rec.nCycleStart == 1))
	vObserveSim(s)
	vReach("end")
}

// spawn report: address below M, index of the spawned warrior
func VerifHarness_C15_spawn() {
	M := Address(vParam("M"))
	s := vMkSim(M, M, M, 2, 100)
	d := &WarriorData{Code: []Instruction{vHavocInstr(M), vHavocInstr(M)}}
	d.Start = vInt("start")
	vAssume(d.Start >= 0)
	vAssume(d.Start < 2)
	s.AddWarrior(d)
	s.AddWarrior(d)
	rec := vNewRecorder(M, 2)
	rec.expectWho = 1
	s.reporters = []Reporter{rec}
	off := Address(vU64("off"))
	vAssume(off < 1<<16)
	s.SpawnWarrior(1, off)
	vAssert("report-address-below-M", !rec.badAddr)
	vAssert("report-warrior-index", vAnd(!rec.badIndex, !rec.wrongWho))
	vAssert("one-spawn-report", rec.nSpawn == 1)
	vReach("end")
}

// R3: the bundled state recorder folds the report stream into "last
// operation that touched it"
func VerifHarness_C15_recorder() {
	M := Address(vParam("M"))
	s := vMkSim(M, M, M, 2, 100)
	d := &WarriorData{Code: make([]Instruction, vParam("len"))}
	s.AddWarrior(d)
	s.AddWarrior(d)
	r := NewStateRecorder(s)
	// arbitrary recorder state
	for i := Address(0); i < M; i++ {
		st := vU8("cstate")
		vAssume(st <= 6)
		r.state[i] = CoreState(st)
		c := vInt("ccolor")
		vAssume(c >= -1)
		vAssume(c <= 1)
		r.color[i] = c
	}
	r.recordReads = vBool("recordReads")
	state0 := make([]CoreState, M)
	color0 := make([]int, M)
	for i := Address(0); i < M; i++ {
		state0[i] = r.state[i]
		color0[i] = r.color[i]
	}
	typ := vU8("rtype")
	vAssume(typ <= 11)
	a := Address(vU64("raddr"))
	vAssume(a < M)
	wi := vParam("wi")
	vPrune(false)
	r.Report(Report{Type: ReportType(typ), WarriorIndex: wi, Address: a})
	vPrune(true)
	rt := ReportType(typ)
	L := Address(vParam("len"))
	for i := Address(0); i < M; i++ {
		var wantS CoreState
		var wantC int
		touched := false
		switch rt {
		case SimReset:
			touched, wantS, wantC = true, CoreEmpty, -1
		case WarriorSpawn:
			// cells a .. a+len-1 (modulo M)
			d := (i + M - a) % M
			if d < L {
				touched, wantS, wantC = true, CoreWritten, wi
			}
		case WarriorTaskPop:
			touched, wantS, wantC = i == a, CoreExecuted, wi
		case WarriorTaskTerminate:
			touched, wantS, wantC = i == a, CoreTerminated, wi
		case WarriorWrite:
			touched, wantS, wantC = i == a, CoreWritten, wi
		case WarriorIncrement:
			touched, wantS, wantC = i == a, CoreIncremented, wi
		case WarriorDecrement:
			touched, wantS, wantC = i == a, CoreDecremented, wi
		case WarriorRead:
			touched, wantS, wantC = vAnd(i == a, r.recordReads), CoreRead, wi
		}
		gs, gc := r.GetMemState(i)
		vAssert("recorder-touched-cell", vImplies(touched, vAnd(gs == wantS, gc == wantC)))
		vAssert("recorder-other-cells-unchanged", vImplies(!touched, vAnd(gs == state0[i], gc == color0[i])))
	}
	vReach("end")
}
