package gmars

// C05 — assembling any input terminates cleanly: no panic, exactly one of
// (error, warrior), no goroutine left behind, no consumer blocked forever,
// every loop within its derived bound. Wall-clock time and memory are
// outside this technique (DESIGN.md section 7).

func init() {
	vHarness["C05_lexer"] = VerifHarness_C05_lexer
	vHarness["C05_soup"] = VerifHarness_C05_soup
	vHarness["C05_forcount"] = VerifHarness_C05_forcount
	vHarness["C05_equ3"] = VerifHarness_C05_equ3
	vHarness["C05_equ"] = VerifHarness_C05_equ
	vHarness["C05_fortail"] = VerifHarness_C05_fortail
}

// G1: the lexer on every rune sequence of length Nb over ASCII + U+FFFD
func VerifHarness_C05_lexer() {
	nb := vParam("Nb")
	r := vRuneReader("rune", nb)
	// each state function consumes at least one rune or ends the stream
	vUnwind(2*nb + 4)
	toks, err := LexInput(r)
	vAssert("lexer-returns-tokens", err == nil && len(toks) >= 1)
	if len(toks) == 0 {
		return
	}
	last := toks[len(toks)-1]
	vAssert("stream-ends-with-terminal-token", last.typ == tokEOF || last.typ == tokError)
	for i := 0; i+1 < len(toks); i++ {
		vAssert("terminal-token-only-at-the-end", toks[i].typ != tokEOF && toks[i].typ != tokError)
	}
	vAssert("token-count-linear", len(toks) <= 2*nb+2)
	vObserve("ntok", uint64(len(toks)))
	vObserve("lasttyp", uint64(last.typ))
	vReach("end")
}

var vSoupWords = []string{"for", "rof", "equ", "dat", "x", "end", "1", "0", "+", ",", "\n", ";c", ":", "=", "!", "(", "-", "#"}

// G2..G5: every sequence of N words of the token-soup vocabulary, rendered
// as text, through the real CompileWarrior
func VerifHarness_C05_soup() {
	n := vParam("N")
	final := vParam("final") // 0: no final newline, 1: final newline
	text := ""
	for i := 0; i < n; i++ {
		w := vSoupWords[vPick("word", 0, len(vSoupWords)-1)]
		text += w
		if w != "\n" {
			text += " "
		}
	}
	if final == 1 {
		text += "\n"
	}
	cfg := ConfigNOP94
	// loop bounds derived from the state graphs: every state function call
	// consumes a token or ends; FOR passes are capped at 13 by CompileWarrior
	vUnwind(6*n + 40)
	w, err := CompileWarrior(vTextReader(text), cfg)
	if err != nil {
		vAssert("error-xor-warrior", w.Code == nil && w.Start == 0 && w.Name == "")
		vReach("rejected")
	} else {
		vAssert("error-xor-warrior", w.Code != nil)
		vAssert("entry-point-inside-code", (len(w.Code) == 0 && w.Start == 0) || (w.Start >= 0 && w.Start < len(w.Code)))
		vReach("accepted")
	}
	vObserveStr("text", text)
	vObserve("ncode", uint64(len(w.Code)))
	vReach("end")
}

// FOR count given by a symbolic numeral: the expansion loop is bounded by
// the count, negative and zero counts emit nothing, nothing leaks
func VerifHarness_C05_forcount() {
	cnt := vInt("count")
	vAssume(cnt >= 0)
	vAssume(cnt <= vParam("maxCount"))
	neg := vBool("neg")
	var toks []token
	toks = append(toks, token{tokText, "i"}, token{tokText, "for"})
	if neg {
		toks = append(toks, token{tokSymbol, "-"})
	}
	toks = append(toks, token{tokNumber, vDec(cnt)}, token{tokNewline, ""},
		token{tokText, "dat"}, token{tokNumber, "0"}, token{tokNewline, ""},
		token{tokText, "rof"}, token{tokNewline, ""}, token{tokEOF, ""})
	syms, forSeen, err := ScanInput(newBufTokenReader(toks))
	vAssert("scan-ok", err == nil && forSeen)
	vUnwind(vParam("maxCount") + 40)
	out, err := ForExpand(newBufTokenReader(toks), syms)
	vUnwind(64)
	vAssert("expand-ok", err == nil)
	ndat := 0
	for _, t := range out {
		if t.typ == tokText && t.val == "dat" {
			ndat++
		}
	}
	want := cnt
	if neg {
		want = 0
	}
	vAssert("body-emitted-count-times", ndat == want)
	vAssert("expansion-ends-with-eof", len(out) > 0 && out[len(out)-1].typ == tokEOF)
	vObserve("ndat", uint64(ndat))
	vReach("end")
}

// G4: compile terminates on cyclic and acyclic EQU definitions, with and
// without an ;assert line that mentions them
func VerifHarness_C05_equ() {
	words := []string{"x", "y", "+", "1"}
	mk := func(name string) []token {
		// a definition may be empty ("x equ" followed only by a comment)
		n := vPick(name+"len", 0, vParam("deflen"))
		var out []token
		for i := 0; i < n; i++ {
			w := words[vPick(name, 0, len(words)-1)]
			switch w {
			case "+":
				out = append(out, token{tokSymbol, "+"})
			case "1":
				out = append(out, token{tokNumber, "1"})
			default:
				out = append(out, token{tokText, w})
			}
		}
		return out
	}
	lines := []sourceLine{
		{typ: linePseudoOp, op: "equ", labels: []string{"x"}, a: mk("xdef")},
		{typ: linePseudoOp, op: "equ", labels: []string{"y"}, a: mk("ydef")},
	}
	switch vPick("assert", 0, 2) {
	case 1:
		lines = append(lines, sourceLine{typ: lineComment, comment: ";assert x"})
	case 2:
		lines = append(lines, sourceLine{typ: lineComment, comment: ";assert y+1"})
	}
	lines = append(lines, sourceLine{typ: lineInstruction, op: "dat", a: []token{{tokText, "x"}}})
	c, err := newCompiler(lines, WarriorData{}, ConfigNOP94)
	vAssert("compiler-created", err == nil)
	// the substitution fix-point runs at most (#symbols + 2) rounds per
	// expression on acyclic definitions; cyclic ones must be rejected first
	vUnwind(24)
	w, err := c.compile()
	vUnwind(64)
	if err != nil {
		vAssert("error-xor-warrior", w.Code == nil)
		vReach("rejected")
	} else {
		vAssert("error-xor-warrior", len(w.Code) == 1)
		vReach("accepted")
	}
	vReach("end")
}

// three EQU definitions x, y, z whose values mention the other names, also
// the same name twice before a third one (the shape that decides whether the
// reference graph is complete): assembling terminates, a cycle that the
// used name can reach is rejected, and acyclic definitions are accepted
func VerifHarness_C05_equ3() {
	names := []string{"x", "y", "z"}
	tmpl := make([]int, 3)
	var lines []sourceLine
	edges := [3][3]bool{}
	for d := 0; d < 3; d++ {
		n1, n2 := (d+1)%3, (d+2)%3
		t := vPick("tmpl", 0, 5)
		tmpl[d] = t
		nm := func(i int) token { return token{tokText, names[i]} }
		plus := token{tokSymbol, "+"}
		var v []token
		switch t {
		case 0:
			v = []token{{tokNumber, "1"}}
		case 1:
			v = []token{nm(n1)}
			edges[d][n1] = true
		case 2:
			v = []token{nm(n1), plus, nm(n1), plus, nm(n2)}
			edges[d][n1], edges[d][n2] = true, true
		case 3:
			v = []token{nm(n1), plus, nm(n2), plus, nm(n1)}
			edges[d][n1], edges[d][n2] = true, true
		case 4:
			v = []token{nm(n1), plus, nm(n1), plus, nm(d)}
			edges[d][n1], edges[d][d] = true, true
		default:
			v = []token{nm(n2)}
			edges[d][n2] = true
		}
		lines = append(lines, sourceLine{typ: linePseudoOp, op: "equ", labels: []string{names[d]}, a: v})
	}
	lines = append(lines, sourceLine{typ: lineInstruction, op: "dat", a: []token{{tokText, "x"}}})
	// reachability from x, and whether a cycle is reachable
	reach := [3]bool{true, false, false}
	for r := 0; r < 3; r++ {
		for a := 0; a < 3; a++ {
			for b := 0; b < 3; b++ {
				if reach[a] && edges[a][b] {
					reach[b] = true
				}
			}
		}
	}
	// transitive closure
	tc := edges
	for k := 0; k < 3; k++ {
		for a := 0; a < 3; a++ {
			for b := 0; b < 3; b++ {
				if tc[a][k] && tc[k][b] {
					tc[a][b] = true
				}
			}
		}
	}
	cycleReachable, anyCycle := false, false
	for a := 0; a < 3; a++ {
		if tc[a][a] {
			anyCycle = true
			if reach[a] {
				cycleReachable = true
			}
		}
	}
	c, err := newCompiler(lines, WarriorData{}, ConfigNOP94)
	vAssert("compiler-created", err == nil)
	vUnwind(40)
	w, err := c.compile()
	vUnwind(64)
	if err != nil {
		vAssert("error-xor-warrior", w.Code == nil)
		vAssert("acyclic-definitions-accepted", anyCycle)
		vReach("rejected")
	} else {
		vAssert("error-xor-warrior", len(w.Code) == 1)
		vAssert("reachable-cycle-rejected", !cycleReachable)
		vReach("accepted")
	}
	vReach("end")
}

// the tail of the stream after a completed FOR block: whatever follows
// (instructions, an error token from the lexer, end of input with or without
// a newline) the expander finishes and nothing keeps running
func VerifHarness_C05_fortail() {
	var toks []token
	toks = append(toks, token{tokText, "i"}, token{tokText, "for"}, token{tokNumber, "1"}, token{tokNewline, ""},
		token{tokText, "dat"}, token{tokText, "i"}, token{tokNewline, ""},
		token{tokText, "rof"})
	// what follows the rof keyword; the stream has the shape the lexer
	// guarantees (C05_lexer): exactly one terminal token, at the end
	n := vParam("tail")
	errored := false
	for k := 0; k < n && !errored; k++ {
		switch vPick("tailtok", 0, 5) {
		case 0:
			toks = append(toks, token{tokNewline, ""})
		case 1:
			toks = append(toks, token{tokText, "dat"})
		case 2:
			toks = append(toks, token{tokNumber, "0"})
		case 3:
			toks = append(toks, token{tokError, "expected '=' after '='"})
			errored = true
		case 4:
			toks = append(toks, token{tokComment, ";c"})
		case 5:
			toks = append(toks, token{tokInvalid, "!"})
		}
	}
	if !errored {
		toks = append(toks, token{tokEOF, ""})
	}
	syms, forSeen, err := ScanInput(newBufTokenReader(toks))
	vAssert("scan-ok", err == nil && forSeen)
	vUnwind(60)
	out, err := ForExpand(newBufTokenReader(toks), syms)
	vAssert("expand-returns-tokens", err == nil && len(out) >= 1)
	if len(out) > 0 {
		last := out[len(out)-1]
		vAssert("stream-ends-with-terminal-token", last.typ == tokEOF || last.typ == tokError)
	}
	vObserve("nout", uint64(len(out)))
	vReach("end")
}
