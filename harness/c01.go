package gmars

// C01 — one instruction step of gmars equals one step of the ICWS'94
// reference interpreter (core cell-for-cell, process queue
// element-for-element), for every instruction form, core content, program
// counter and read/write limit, per concrete core size M and process limit P.

func init() {
	vHarness["C01_step"] = VerifHarness_C01_step
	vHarness["C01_step_canary"] = VerifHarness_C01_step_canary
}

func vC01(canary bool) {
	M := Address(vParam("M"))
	P := Address(vParam("P"))
	R := Address(vU64("R"))
	W := Address(vU64("W"))
	vAssume(R >= 1)
	vAssume(R <= M)
	vAssume(W >= 1)
	vAssume(W <= M)
	s := vMkSim(M, R, W, P, 100)
	w := vMkWarrior(s, P)
	vHavocCore(s)
	// the executing task is at the front of an arbitrary valid ring-buffer
	// state with 1..P entries and is taken off it by the real Pop, as the
	// scheduler does before every step
	vHavocQueue(w.pq, M, 1, P)
	pc := Address(vU64("pc"))
	vAssume(pc < M)
	w.pq.queue[w.pq.start] = pc
	popped, perr := w.pq.Pop()
	vAssert("front-task-popped", perr == nil && popped == pc)
	vSetForm(s, pc)

	ref := vRefFrom(s, w)
	ref.canary = canary

	// exec and the reference are loop-free: both sides of every branch are
	// executed under their guards and joined, no feasibility queries
	vPrune(false)
	vAbstractArith(vParamOr("uf", 1) == 1)
	s.exec(pc, w)
	ref.step(pc)
	vPrune(true)
	vAbstractArith(false)

	vCompareWithRef(s, w, ref)
	vObserveSim(s)
	vReach("end")
}

func VerifHarness_C01_step()        { vC01(false) }
func VerifHarness_C01_step_canary() { vC01(true) }
