package gmars

// C02 — scheduling and battle termination. The task step itself is C01's
// subject; here the real RunCycle / Run / processQueue are compared with a
// reference scheduler that uses the same real exec for the task step, so the
// queries isolate the scheduling logic.

func init() {
	vHarness["C02_fifo"] = VerifHarness_C02_fifo
	vHarness["C02_load"] = VerifHarness_C02_load
	vHarness["C02_queue"] = VerifHarness_C02_queue
	vHarness["C02_pop"] = VerifHarness_C02_pop
	vHarness["C02_cycle"] = VerifHarness_C02_cycle
	vHarness["C02_cycle_canary"] = VerifHarness_C02_cycle_canary
	vHarness["C02_cycle3"] = VerifHarness_C02_cycle3
	vHarness["C02_run"] = VerifHarness_C02_run
	vHarness["C02_split"] = VerifHarness_C02_split
}

// the process queue is a bounded FIFO
func VerifHarness_C02_queue() {
	P := Address(vParam("P"))
	M := Address(8)
	q := newProcessQueue(P)
	vHavocQueue(q, M, 0, P)
	n0 := q.length
	old := make([]Address, P)
	for i := Address(0); i < P; i++ {
		old[i] = q.queue[(q.start+i)%q.size]
	}
	a := Address(vU64("pushed"))
	vPrune(false)
	q.Push(a)
	vPrune(true)
	full := n0 == P
	vAssert("push-drops-when-full", vImplies(full, q.length == n0))
	vAssert("push-appends-at-back", vImplies(!full, vAnd(q.length == n0+1, q.queue[(q.start+n0)%q.size] == a)))
	for i := Address(0); i < P; i++ {
		vAssert("push-keeps-older-tasks", vImplies(i < n0, q.queue[(q.start+i)%q.size] == old[i]))
	}
	vAssert("queue-shape", vAnd(q.start < q.size, q.end == (q.start+q.length)%q.size))
	// pop takes the front
	n1 := q.length
	front := q.queue[q.start]
	second := q.queue[(q.start+1)%q.size]
	v, err := q.Pop()
	if err != nil {
		vAssert("pop-fails-only-when-empty", n1 == 0)
		vReach("pop-empty")
		return
	}
	vAssert("pop-returns-front", v == front)
	vAssert("pop-shortens", q.length == n1-1)
	vAssert("pop-advances", vImplies(q.length >= 1, q.queue[q.start] == second))
	vObserve("popped", uint64(v))
	vReach("end")
}

// the queue through its own operations only (no look at its storage): from
// every state reachable by rotating an empty queue k times and pushing n
// arbitrary addresses (any 64-bit value below 2^40: the queue does not know
// the core size), Values lists them in order, a further Push appends or is
// dropped at the limit, and Pop returns them first-in first-out
func VerifHarness_C02_fifo() {
	P := vParam("P")
	q := newProcessQueue(Address(P))
	k := vPick("rot", 0, P-1)
	for i := 0; i < k; i++ {
		q.Push(0)
		q.Pop()
	}
	n := vPick("n", 0, P)
	vals := make([]Address, 0, P+1)
	for i := 0; i < n; i++ {
		a := Address(vU64("val"))
		vAssume(a < 1<<40)
		q.Push(a)
		vals = append(vals, a)
	}
	extra := Address(vU64("extra"))
	vAssume(extra < 1<<40)
	q.Push(extra)
	if n < P {
		vals = append(vals, extra)
	}
	vAssert("length-counts-kept-pushes", int(q.Len()) == len(vals))
	got := q.Values()
	vAssert("values-has-length-entries", len(got) == len(vals))
	if len(got) != len(vals) {
		return
	}
	for i := range vals {
		vAssert("values-in-push-order", got[i] == vals[i])
	}
	if nx, err := q.Next(); len(vals) > 0 {
		vAssert("next-is-front", err == nil && nx == vals[0])
	}
	for i := range vals {
		v, err := q.Pop()
		vAssert("pop-is-first-in-first-out", err == nil && v == vals[i])
	}
	_, err := q.Pop()
	vAssert("pop-fails-when-empty", err != nil && q.Len() == 0)
	// and the emptied queue is as good as new
	q.Push(extra)
	v, err := q.Pop()
	vAssert("reusable-after-emptying", err == nil && v == extra)
	vObserve("extra", uint64(extra))
	vReach("end")
}

// pop on an arbitrary queue state: fails exactly when empty
func VerifHarness_C02_pop() {
	P := Address(vParam("P"))
	q := newProcessQueue(P)
	vHavocQueue(q, 8, 0, P)
	n0 := q.length
	front := q.queue[q.start]
	v, err := q.Pop()
	if err != nil {
		vAssert("pop-fails-only-when-empty", n0 == 0)
		vAssert("failed-pop-changes-nothing", q.length == 0)
		vReach("pop-empty")
		return
	}
	vAssert("pop-succeeds-only-when-non-empty", n0 >= 1)
	vAssert("pop-returns-front", v == front)
	vReach("pop-non-empty")
}

// vCloneSim deep-copies a simulator state built by the harness helpers.
func vCloneSim(s *reportSim) *reportSim {
	c := vMkSim(s.m, s.readLimit, s.writeLimit, s.maxProcs, s.maxCycles)
	for i := Address(0); i < s.m; i++ {
		c.mem[i] = s.mem[i]
	}
	for _, w := range s.warriors {
		w2 := vMkWarrior(c, s.maxProcs)
		w2.state = w.state
		for i := Address(0); i < w.pq.size; i++ {
			w2.pq.queue[i] = w.pq.queue[i]
		}
		w2.pq.start, w2.pq.length, w2.pq.end = w.pq.start, w.pq.length, w.pq.end
	}
	c.warriorLivingCount = s.warriorLivingCount
	c.cycleCount = s.cycleCount
	return c
}

// refCycle is the reference round-robin cycle (DESIGN.md appendix B); the
// task step is the real exec. It returns what RunCycle should return and
// records the executed (warrior, pc) pairs in trace.
func refCycle(s *reportSim, trace []Address, ran []bool, canary bool) int {
	if s.cycleCount >= s.maxCycles {
		return 0
	}
	if s.warriorLivingCount < 1 {
		return 0
	}
	count := len(s.warriors)
	// a battle between several warriors is over once fewer than two live
	if count > 1 {
		if s.warriorLivingCount < 2 {
			return s.warriorLivingCount
		}
	}
	for i := 0; i < count; i++ {
		w := s.warriors[i]
		if w.state != WarriorAlive {
			continue
		}
		q := w.pq
		pc := q.queue[q.start]
		q.start = (q.start + 1) % q.size
		q.length--
		trace[i] = pc
		ran[i] = true
		s.exec(pc, w)
		if q.length == 0 {
			w.state = WarriorDead
			s.warriorLivingCount--
			if count > 1 {
				if s.warriorLivingCount == 1 {
					if canary {
						// deliberately wrong: counts the unfinished cycle
						s.cycleCount++
					}
					return 1
				}
			}
		}
	}
	s.cycleCount++
	return s.warriorLivingCount
}

// vAssertSameSim asserts equality of the observable and behavioural state.
func vAssertSameSim(a, b *reportSim) {
	for i := Address(0); i < a.m; i++ {
		vAssert("core-equal", vSameInstr(a.mem[i], b.mem[i]))
	}
	for wi, w1 := range a.warriors {
		w2 := b.warriors[wi]
		vAssert("alive-flags-equal", w1.state == w2.state)
		vAssert("queue-length-equal", w1.pq.length == w2.pq.length)
		for i := Address(0); i < w1.pq.size; i++ {
			vAssert("queue-equal", vImplies(i < w1.pq.length, w1.pq.queue[(w1.pq.start+i)%w1.pq.size] == w2.pq.queue[(w2.pq.start+i)%w2.pq.size]))
		}
	}
	vAssert("living-count-equal", a.warriorLivingCount == b.warriorLivingCount)
	vAssert("cycle-count-equal", a.cycleCount == b.cycleCount)
}

type vPopTrace struct {
	pcs []Address
	ran []bool
	// order check: pops must come in loading order
	last     int
	outOfOrd bool
}

func (t *vPopTrace) Report(r Report) {
	if r.Type != WarriorTaskPop {
		return
	}
	if r.WarriorIndex <= t.last {
		t.outOfOrd = true
	}
	t.last = r.WarriorIndex
	t.pcs[r.WarriorIndex] = r.Address
	t.ran[r.WarriorIndex] = true
}

func vC02cycle(canary bool)      { vC02cycleX(canary, false) }
func VerifHarness_C02_cycle3() { vC02cycleX(false, true) }

func vC02cycleX(canary bool, simpleCode bool) {
	M := Address(vParam("M"))
	P := Address(vParam("P"))
	n := vParam("n")
	maxc := Address(vU64("maxCycles"))
	vAssume(maxc >= 1)
	s1 := vMkSim(M, M, M, P, maxc)
	vHavocCore(s1)
	if simpleCode {
		// every cell is DAT, NOP or SPL with direct operands: a task queues
		// 0, 1 or 2 successors and changes no cell
		for i := Address(0); i < M; i++ {
			op := s1.mem[i].Op
			vAssume(vOr(op == DAT, vOr(op == NOP, op == SPL)))
			s1.mem[i].AMode = DIRECT
			s1.mem[i].BMode = DIRECT
		}
	}
	for i := 0; i < n; i++ {
		vHavocWarrior(s1, P)
	}
	s1.warriorLivingCount = vAliveCount(s1)
	s1.cycleCount = Address(vU64("cycle"))
	vAssume(s1.cycleCount <= maxc)
	s2 := vCloneSim(s1)
	tr := &vPopTrace{pcs: make([]Address, n), ran: make([]bool, n), last: -1}
	s1.reporters = []Reporter{tr}
	trace2 := make([]Address, n)
	ran2 := make([]bool, n)

	vPrune(false)
	vAbstractArith(true)
	r1 := s1.RunCycle()
	r2 := refCycle(s2, trace2, ran2, canary)
	vAbstractArith(false)
	vPrune(true)

	vAssert("return-value-equal", r1 == r2)
	vAssertSameSim(s1, s2)
	for i := 0; i < n; i++ {
		vAssert("executed-warriors-equal", tr.ran[i] == ran2[i])
		vAssert("executed-pcs-equal", vImplies(ran2[i], tr.pcs[i] == trace2[i]))
	}
	vAssert("loading-order", !tr.outOfOrd)
	vObserveSim(s1)
	vObserve("ret", uint64(r1))
	vReach("end")
}

func VerifHarness_C02_cycle()        { vC02cycle(false) }
func VerifHarness_C02_cycle_canary() { vC02cycle(true) }

// Run() ends in the same state as the cycle-by-cycle driver
func VerifHarness_C02_run() {
	M := Address(vParam("M"))
	P := Address(vParam("P"))
	n := vParam("n")
	maxc := Address(vParam("maxCycles"))
	s1 := vMkSim(M, M, M, P, maxc)
	vHavocCore(s1)
	for i := 0; i < n; i++ {
		vHavocWarrior(s1, P)
	}
	s1.warriorLivingCount = vAliveCount(s1)
	s1.cycleCount = Address(vU64("cycle"))
	vAssume(s1.cycleCount <= maxc)
	// a battle in progress: one warrior, or at least two living among several
	if n > 1 {
		vAssume(s1.warriorLivingCount >= 2)
	}
	s2 := vCloneSim(s1)

	vUnwind(int(maxc) + 2)
	vPrune(false) // loop headers are still checked for feasibility
	vAbstractArith(true)
	res := s1.Run()
	// reference driver: step until a lone warrior died, one survivor remains
	// among several, or the cycle limit is reached
	for s2.cycleCount < s2.maxCycles {
		alive := s2.RunCycle()
		if n == 1 {
			if alive == 0 {
				break
			}
		} else if alive <= 1 {
			break
		}
	}
	vAbstractArith(false)
	vPrune(true)
	vUnwind(64)

	vAssert("result-length", len(res) == n)
	for i := 0; i < n; i++ {
		vAssert("result-is-alive-flag", res[i] == (s2.warriors[i].state == WarriorAlive))
	}
	vAssertSameSim(s1, s2)
	vAssert("stops-at-limit-or-decision", vOr(s1.cycleCount == s1.maxCycles, vOr(vAnd(n == 1, s1.warriorLivingCount == 0), vAnd(n > 1, s1.warriorLivingCount <= 1))))
	vObserveSim(s1)
	vReach("end")
}

// loading: a warrior with any entry point, loaded at any offset (also
// beyond the core size), starts the battle with exactly one task, at
// (offset + entry point) mod M, its code sits at offset.., and the first
// cycle executes that task
func VerifHarness_C02_load() {
	M := Address(vParam("M"))
	L := vParam("len")
	sim, err := NewReportingSimulator(SimulatorConfig{Mode: ICWS94, CoreSize: M, Processes: 2, Cycles: 10, ReadLimit: M, WriteLimit: M, Length: Address(L), Distance: 0})
	vAssert("simulator-created", err == nil)
	if err != nil {
		return
	}
	code := make([]Instruction, L)
	for i := range code {
		code[i] = vHavocInstr(M)
	}
	start := vInt("start")
	vAssume(start >= 0)
	vAssume(start < L)
	w, err := sim.AddWarrior(&WarriorData{Name: "w", Code: code, Start: start})
	vAssert("added", err == nil)
	off := Address(vU64("off"))
	vAssume(off < 4*M)
	vAssert("spawned", sim.SpawnWarrior(0, off) == nil)
	q := w.Queue()
	first := (off + Address(start)) % M
	vAssert("one-task-at-the-entry-point", len(q) == 1 && q[0] == first)
	for i := 0; i < L; i++ {
		vAssert("code-loaded-at-offset", vSameInstr(sim.GetMem((off+Address(i))%M), code[i]))
	}
	rec := vNewRecorder(M, 1)
	sim.AddReporter(rec)
	vPrune(false)
	vAbstractArith(true)
	sim.RunCycle()
	vAbstractArith(false)
	vPrune(true)
	vAssert("first-executed-task-is-the-entry-point", rec.nPop == 1 && rec.lastPop == first && !rec.badAddr)
	vObserve("first", uint64(first))
	vReach("end")
}

// SPL queues the fall-through task before the new one, and the new one is
// dropped when the warrior already holds the process limit
func VerifHarness_C02_split() {
	M := Address(vParam("M"))
	P := Address(vParam("P"))
	s := vMkSim(M, M, M, P, 100)
	w := vMkWarrior(s, P)
	vHavocCore(s)
	vHavocQueue(w.pq, M, 0, P-1)
	pc := Address(vU64("pc"))
	vAssume(pc < M)
	s.mem[pc].Op = SPL
	s.mem[pc].AMode = DIRECT
	tgt := (pc + s.mem[pc].A) % M
	n0 := w.pq.length
	vPrune(false)
	s.exec(pc, w)
	vPrune(true)
	room2 := n0+2 <= P
	vAssert("fallthrough-first", w.pq.queue[(w.pq.start+n0)%w.pq.size] == (pc+1)%M)
	vAssert("new-task-second", vImplies(room2, vAnd(w.pq.length == n0+2, w.pq.queue[(w.pq.start+n0+1)%w.pq.size] == tgt)))
	vAssert("new-task-dropped-at-limit", vImplies(!room2, w.pq.length == n0+1))
	vObserveSim(s)
	vReach("end")
}
