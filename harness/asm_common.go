package gmars

// Shared harness code for the assembler-side properties: the independently
// written ICWS'88 legality table and ICWS'94 default-modifier table
// (DESIGN.md appendix C).

// refLegal88 says whether (op, amode, bmode) is a legal ICWS'88 instruction
// and which modifier the standard implies.
func refLegal88(op OpCode, a, b AddressMode) (bool, OpMode) {
	is88mode := func(m AddressMode) bool {
		return m == IMMEDIATE || m == DIRECT || m == B_INDIRECT || m == B_DECREMENT
	}
	if !is88mode(a) || !is88mode(b) {
		return false, 0
	}
	switch op {
	case DAT:
		okA := a == IMMEDIATE || a == B_DECREMENT
		okB := b == IMMEDIATE || b == B_DECREMENT
		return okA && okB, F
	case MOV, CMP:
		if b == IMMEDIATE {
			return false, 0
		}
		if a == IMMEDIATE {
			return true, AB
		}
		return true, I
	case ADD, SUB:
		if b == IMMEDIATE {
			return false, 0
		}
		if a == IMMEDIATE {
			return true, AB
		}
		return true, F
	case SLT:
		// #B tolerated: the repository's tests document it (hills allow it)
		if a == IMMEDIATE {
			return true, AB
		}
		return true, B
	case JMP, JMZ, JMN, DJN, SPL:
		if a == IMMEDIATE {
			return false, 0
		}
		return true, B
	}
	return false, 0
}

// refDefault94 is the ICWS'94 default modifier (NOP -> B: gmars' dialect,
// pinned by its stored load files).
func refDefault94(op OpCode, a, b AddressMode) OpMode {
	switch op {
	case DAT:
		return F
	case NOP:
		return B
	case MOV, SEQ, SNE, CMP:
		if a == IMMEDIATE {
			return AB
		}
		if b == IMMEDIATE {
			return B
		}
		return I
	case ADD, SUB, MUL, DIV, MOD:
		if a == IMMEDIATE {
			return AB
		}
		if b == IMMEDIATE {
			return B
		}
		return F
	case SLT:
		if a == IMMEDIATE {
			return AB
		}
		return B
	}
	return B // JMP JMZ JMN DJN SPL
}
