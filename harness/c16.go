package gmars

import (
	"strconv"
	"strings"
)

// C16 — the printed load listing, read back with the pMARS listing
// conventions, denotes the warrior it was printed from.

func init() {
	vHarness["C16_listing"] = VerifHarness_C16_listing
	vHarness["C16_names"] = VerifHarness_C16_names
}

// vReadListing parses a load listing (harness-side reader written from the
// pMARS conventions): optional "ORG START" first, instruction lines with an
// optional START label, "mnemonic[.modifier] mode value, mode value", and an
// optional "END START" last. Returns ok=false when the text does not have
// that shape.
func vReadListing(text string, legacy bool, M Address) (code []Instruction, start int, nStart int, ok bool) {
	start = -1
	lines := strings.Split(text, "\n")
	for _, line := range lines {
		f := strings.Fields(strings.ReplaceAll(line, ",", " "))
		if len(f) == 0 {
			continue
		}
		if len(f) == 2 && (f[0] == "ORG" || f[0] == "END") {
			if f[1] != "START" {
				return nil, 0, 0, false
			}
			continue
		}
		if f[0] == "START" {
			start = len(code)
			nStart++
			f = f[1:]
		}
		if len(f) != 5 {
			return nil, 0, 0, false
		}
		var ins Instruction
		name := strings.ToLower(f[0])
		if legacy {
			op, err := getOpCode88(name)
			if err != nil {
				return nil, 0, 0, false
			}
			ins.Op = op
		} else {
			parts := strings.Split(name, ".")
			if len(parts) != 2 {
				return nil, 0, 0, false
			}
			op, err := getOpCode(parts[0])
			if err != nil {
				return nil, 0, 0, false
			}
			md, err := getOpMode(parts[1])
			if err != nil {
				return nil, 0, 0, false
			}
			ins.Op, ins.OpMode = op, md
		}
		am, err := getAddressMode(f[1])
		if err != nil {
			return nil, 0, 0, false
		}
		bm, err := getAddressMode(f[3])
		if err != nil {
			return nil, 0, 0, false
		}
		av, err := strconv.ParseInt(f[2], 10, 64)
		if err != nil {
			return nil, 0, 0, false
		}
		bv, err := strconv.ParseInt(f[4], 10, 64)
		if err != nil {
			return nil, 0, 0, false
		}
		m := int64(M)
		ins.AMode, ins.BMode = am, bm
		ins.A = Address(((av % m) + m) % m)
		ins.B = Address(((bv % m) + m) % m)
		if legacy {
			okm, md := refLegal88(ins.Op, am, bm)
			if !okm {
				return nil, 0, 0, false
			}
			ins.OpMode = md
		}
		code = append(code, ins)
	}
	return code, start, nStart, true
}

func VerifHarness_C16_listing() {
	M := Address(vParam("M"))
	// legacy: 0 ICWS'94, 1 ICWS'88, 2 the NOP94 mode of the small-core presets
	// (listed like '94). The simulator is built through the public
	// constructor so that the check does not depend on how it stores the mode.
	legacy := vParam("legacy") == 1
	L := vParam("len")
	opIdx := vParam("op")
	mode := []SimulatorMode{ICWS94, ICWS88, NOP94}[vParam("legacy")]
	rs, err := NewReportingSimulator(SimulatorConfig{Mode: mode, CoreSize: M, Processes: 2, Cycles: 100, ReadLimit: M, WriteLimit: M, Length: Address(L), Distance: 0})
	vAssert("simulator-created", err == nil)
	if err != nil {
		return
	}
	s := rs.(*reportSim)
	code := make([]Instruction, L)
	for i := 0; i < L; i++ {
		var ins Instruction
		ins.Op = vMnemonicOps[opIdx]
		if i > 0 {
			// further lines: a second fixed opcode keeps the path count down
			ins.Op = DAT
		}
		sym := vParam("sym") == 1
		if sym {
			// symbolic field values under one fixed form
			ins.AMode, ins.BMode = DIRECT, B_INDIRECT
			if ins.Op == DAT {
				ins.AMode, ins.BMode = IMMEDIATE, B_DECREMENT
			}
		} else {
			ins.AMode = AddressMode(vPick("amode", 0, 7))
			ins.BMode = AddressMode(vPick("bmode", 0, 7))
		}
		if legacy {
			ok, md := refLegal88(ins.Op, ins.AMode, ins.BMode)
			vAssume(ok)
			ins.OpMode = md
		} else if sym {
			ins.OpMode = X
		} else {
			ins.OpMode = OpMode(vPick("opmode", 0, 6))
		}
		if sym {
			ins.A = Address(vU64("a"))
			ins.B = Address(vU64("b"))
			vAssume(ins.A < M)
			vAssume(ins.B < M)
		} else {
			// every form with fields on both sides of the sign boundary
			ins.A = M/2 + 1
			ins.B = M / 2
		}
		code[i] = ins
	}
	start := vPick("start", 0, L-1)
	w := &warrior{data: &WarriorData{Name: "n", Author: "a", Code: code, Start: start}, sim: s}
	if vParamOr("api", 0) == 1 {
		// the warrior as the simulator holds it after it was added and
		// loaded into the core at an arbitrary address
		aw, err := s.AddWarrior(&WarriorData{Name: "n", Author: "a", Code: code, Start: start})
		vAssert("add-ok", err == nil)
		// (a few concrete addresses: the listing must not depend on it at all)
		off := []Address{0, 1, 2, M - 1}[vPick("off", 0, 3)]
		vAssert("spawn-ok", s.SpawnWarrior(0, off) == nil)
		w = aw.(*warrior)
	}
	vPrune(false)
	text := w.LoadCode()
	got, gstart, nStart, ok := vReadListing(text, legacy, M)
	vPrune(true)
	vAssert("listing-has-the-pmars-shape", ok)
	if !ok {
		return
	}
	vAssert("exactly-one-start-line", nStart == 1)
	vAssert("listing-denotes-entry-point", gstart == start)
	vAssert("listing-denotes-length", len(got) == L)
	if len(got) != L {
		return
	}
	for i := 0; i < L; i++ {
		vAssert("listing-denotes-instruction", vSameInstr(got[i], code[i]))
	}
	vObserve("a0", uint64(got[0].A))
	vReach("end")
}

// the mnemonic, modifier and mode names printed by String() read back to the
// same values, on the whole data model
func VerifHarness_C16_names() {
	op := OpCode(vPick("op", 0, 16))
	o2, err := getOpCode(op.String())
	vAssert("opcode-name-roundtrip", err == nil && o2 == op)
	md := OpMode(vPick("opmode", 0, 6))
	m2, err := getOpMode(md.String())
	vAssert("modifier-name-roundtrip", err == nil && m2 == md)
	am := AddressMode(vPick("mode", 0, 7))
	a2, err := getAddressMode(am.String())
	vAssert("mode-name-roundtrip", err == nil && a2 == am)
	vReach("end")
}
