package gmars

// Native implementations of the harness intrinsics. The symbolic engine
// intercepts calls to these functions by name and never executes the bodies;
// the bodies are used when a solver model (or a witness) is replayed against
// the real build.

import (
	"encoding/json"
	"fmt"
	"io"
	"os"
	"strconv"
	"strings"
)

type vRecord struct {
	Harness string              `json:"harness"`
	Params  map[string]int      `json:"params"`
	Values  map[string][]uint64 `json:"values"`
	Known   map[string]bool     `json:"known"`
	Expect  map[string]string   `json:"expect,omitempty"`
}

type vObs struct {
	Name string `json:"name"`
	Val  string `json:"val"`
}

type vResult struct {
	Harness      string   `json:"harness"`
	Obs          []vObs   `json:"obs"`
	Failed       []string `json:"failed"`
	Reached      []string `json:"reached"`
	AssumeFailed bool     `json:"assume_failed"`
	Panic        string   `json:"panic"`
	PanicStack   string   `json:"panic_stack,omitempty"`
	Timeout      bool     `json:"timeout"`
	Leaked       int      `json:"leaked"`
	LeakStacks   string   `json:"leak_stacks,omitempty"`
}

type vAssumeFail struct{}

var (
	vRec      *vRecord
	vRes      *vResult
	vCounters map[string]int
	vHarness  = map[string]func(){}
)

func vLoadRecord(path string) (*vRecord, error) {
	b, err := os.ReadFile(path)
	if err != nil {
		return nil, err
	}
	r := &vRecord{}
	if err := json.Unmarshal(b, r); err != nil {
		return nil, err
	}
	return r, nil
}

func vBegin(r *vRecord) {
	vRec = r
	vRes = &vResult{Harness: r.Harness}
	vCounters = map[string]int{}
	vGlobals0 = vGlobalsSnapshot()
}

func vNext(name string) uint64 {
	k := vCounters[name]
	vCounters[name] = k + 1
	vals := vRec.Values[name]
	if k < len(vals) {
		return vals[k]
	}
	return 0
}

func vU64(name string) uint64 { return vNext(name) }
func vInt(name string) int    { return int(vNext(name)) }
func vU32(name string) uint32 { return uint32(vNext(name)) }
func vU8(name string) uint8   { return uint8(vNext(name)) }
func vBool(name string) bool  { return vNext(name) != 0 }
func vChoose(name string, n int) int {
	v := int(vNext(name))
	if v < 0 || v >= n {
		panic(vAssumeFail{})
	}
	return v
}

func vPick(name string, lo, hi int) int {
	v := int(int64(vNext(name)))
	if v < lo || v > hi {
		panic(vAssumeFail{})
	}
	return v
}

func vAssume(c bool) {
	if !c {
		panic(vAssumeFail{})
	}
}

func vAssert(id string, c bool) {
	vRes.Reached = append(vRes.Reached, id)
	if !c {
		vRes.Failed = append(vRes.Failed, id)
	}
}

func vReach(id string)                { vRes.Reached = append(vRes.Reached, id) }
func vImplies(a, b bool) bool         { return !a || b }
func vAnd(a, b bool) bool             { return a && b }
func vOr(a, b bool) bool              { return a || b }
func vIte(c bool, a, b uint64) uint64 { if c { return a }; return b }
func vIteInt(c bool, a, b int) int    { if c { return a }; return b }

func vParam(name string) int {
	v, ok := vRec.Params[name]
	if !ok {
		panic("vParam: missing " + name)
	}
	return v
}

func vParamOr(name string, def int) int {
	if v, ok := vRec.Params[name]; ok {
		return v
	}
	return def
}

func vKnown(id string) bool { return vRec.Known[id] }

func vObserve(name string, v uint64) {
	vRes.Obs = append(vRes.Obs, vObs{name, strconv.FormatUint(v, 10)})
}
func vObserveStr(name string, v string) {
	vRes.Obs = append(vRes.Obs, vObs{name, "s:" + v})
}
func vObserveBool(name string, v bool) {
	if v {
		vRes.Obs = append(vRes.Obs, vObs{name, "1"})
	} else {
		vRes.Obs = append(vRes.Obs, vObs{name, "0"})
	}
}

func vUnwind(n int)   {}
func vPrune(b bool)   {}
func vMapPerm(b bool) {}
func vAbstractArith(b bool) {}
func vTrace(s string) {}

func vStr(name string, vocab ...string) string {
	i := int(vNext(name))
	if i < 0 || i >= len(vocab) {
		panic(vAssumeFail{})
	}
	return vocab[i]
}

func vDec(v int) string     { return strconv.Itoa(v) }
func vDecU(v uint64) string { return strconv.FormatUint(v, 10) }

// vUF2 is an uninterpreted binary function for the solver; natively it is
// the operation it stands for.
func vUF2(name string, a, b int) int {
	switch name {
	case "mul":
		return a * b
	case "div":
		if b == 0 {
			return 0
		}
		return a / b
	case "rem":
		if b == 0 {
			return 0
		}
		return a % b
	}
	panic("vUF2: unknown function " + name)
}

func vStateCount(name string) int { return 0 }

var _ = fmt.Sprintf

// vRuneReader: a reader over n nondeterministic runes, each ASCII or an
// invalid byte (which ReadRune reports as U+FFFD).
func vRuneReader(name string, n int) io.Reader {
	b := make([]byte, 0, n)
	for i := 0; i < n; i++ {
		r := vNext(name)
		switch {
		case r < 0x80:
			b = append(b, byte(r))
		case r == 0xFFFD:
			b = append(b, 0xFF)
		case r == 0xE9 || r == 0x663:
			b = append(b, string(rune(r))...)
		default:
			panic(vAssumeFail{})
		}
	}
	return strings.NewReader(string(b))
}

func vTextReader(s string) io.Reader { return strings.NewReader(s) }

// vSharedWrites: the engine counts stores to package-level state; natively
// the printed value of every package-level variable of the code under test
// (vGlobalsSnapshot is generated from /repo's sources at check time) is
// compared with its value when the harness started.
var vGlobals0 string

func vSharedWrites() int {
	if vGlobalsSnapshot() != vGlobals0 {
		return 1
	}
	return 0
}
