package gmars

// C10 — the load-file reader rejects what it cannot represent; C09 — the
// canonical load-file text round-trips through the reader and the assembler.

func init() {
	vHarness["C10_reader"] = VerifHarness_C10_reader
	vHarness["C09_loader"] = VerifHarness_C09_loader
	vHarness["C09_assembler"] = VerifHarness_C09_assembler
	vHarness["C09_names"] = VerifHarness_C09_names
	vHarness["C09_history"] = VerifHarness_C09_history
}

// one line of a (possibly corrupted) load file; returns the text (without
// line end) and what a correct reader must do with it:
// 0 skip (blank / comment), 1 one instruction, 2 entry directive, 3 end
// marker, 4 must fail
func vLoadLine(kind int, legacy bool, M Address) (string, int) {
	num := func(name string) string {
		v := vInt(name)
		vAssume(v >= 0)
		vAssume(v <= 1<<20)
		if vPick(name+"neg", 0, 1) == 1 {
			return "-" + vDec(v)
		}
		return vDec(v)
	}
	op := "MOV.I"
	if legacy {
		op = "MOV"
	}
	switch kind {
	case 0:
		return "", 0
	case 1:
		return "; a remark, with a comma", 0
	case 2:
		return ";name Some Name", 0
	case 3:
		return ";strategy", 0 // shorter than the 10 bytes the reader slices off
	case 4:
		return op + " $ " + num("a") + ", @ " + num("b"), 1
	case 5:
		return "  " + op + "\t$\t" + num("a") + " ,\t@  " + num("b") + " ; trailing", 1
	case 6:
		return op + " $ " + num("a") + " @ " + num("b"), 4 // missing comma
	case 7:
		return op + " $ " + num("a") + ",", 4 // fields deleted
	case 8:
		return op + " $ " + num("a") + ", @ " + num("b") + " 7", 4 // field duplicated
	case 9:
		return "XYZ.I $ 1, $ 2", 4 // unknown mnemonic
	case 10:
		return op + " ! 1, $ 2", 4 // junk mode
	case 11:
		return op + " $ 1x, $ 2", 4 // not a number
	case 12:
		return "ORG " + num("org"), 2
	case 13:
		return "ORG", 4
	case 14:
		return "END", 3
	case 15:
		if legacy {
			return "END " + num("end"), 5 // entry directive + end marker
		}
		return "END 0", 4
	case 16:
		return "MOV.I } 1, > 2", 6 // legal '94, illegal '88
	case 17:
		return "MOV $ 1, # 2", 7 // no modifier: only the '88 reader reads it, and #B is illegal for MOV
	case 18:
		return "SEQ $ 1, $ 2", 4 // '94-only opcode without modifier: neither reader can represent it
	case 19:
		return "MUL.F $ 1, $ 2", 6 // '94-only opcode: illegal under '88
	case 20:
		// every modifier-less '88 opcode with every pair of '88 modes: the '88
		// reader accepts exactly the combinations the standard allows
		ops := []OpCode{DAT, MOV, ADD, SUB, JMP, JMZ, JMN, CMP, SLT, DJN, SPL}
		modes := []AddressMode{IMMEDIATE, DIRECT, B_INDIRECT, B_DECREMENT}
		o := ops[vPick("op88", 0, len(ops)-1)]
		am := modes[vPick("am88", 0, 3)]
		bm := modes[vPick("bm88", 0, 3)]
		line := vOpNamesUpper[o] + " " + vModeNames[am] + " 1, " + vModeNames[bm] + " 2"
		if !legacy {
			return line, 4
		}
		if ok, _ := refLegal88(o, am, bm); ok {
			return line, 1
		}
		return line, 4
	}
	return "JUNK", 4
}

func VerifHarness_C10_reader() {
	M := Address(vParam("M"))
	legacy := vParam("legacy") == 1
	n := vParam("lines")
	cfg := NewQuickConfig(ICWS94, M, 8, 100, 1)
	if legacy {
		cfg.Mode = ICWS88
	}
	text := ""
	nInstr, nDir := 0, 0
	mustFail := false
	ended := false
	var orgVals []string
	_ = orgVals
	for i := 0; i < n; i++ {
		kind := vPick("kind", 0, 20)
		if vParam("kset") == 1 {
			// reduced set for multi-line files
			vAssume(kind == 0 || kind == 1 || kind == 4 || kind == 9 || kind == 12 || kind == 14 || kind == 15)
		}
		line, what := vLoadLine(kind, legacy, M)
		last := i == n-1
		text += line
		if !last || vParam("finalNL") == 1 {
			text += []string{"\n", "\r\n"}[vPick("nl", 0, 1)]
		}
		if ended {
			continue
		}
		switch what {
		case 1:
			nInstr++
		case 2:
			nDir++
		case 3:
			ended = true
		case 4:
			mustFail = true
			ended = true // the read stops here with an error
		case 5:
			nDir++
			ended = true
		case 6:
			if legacy {
				mustFail = true
				ended = true
			} else {
				nInstr++
			}
		case 7:
			mustFail = true
			ended = true
		}
	}
	vPrune(false)
	w, err := ParseLoadFile(vTextReader(text), cfg)
	vPrune(true)
	vReach("done")
	if err != nil {
		vAssert("error-xor-warrior", w.Code == nil && w.Start == 0)
		vReach("rejected")
		return
	}
	vReach("accepted")
	vAssert("corrupted-line-makes-the-read-fail", !mustFail)
	vAssert("every-instruction-line-counted", len(w.Code) == nInstr)
	vAssert("entry-point-inside-code", (len(w.Code) == 0 && w.Start == 0) || (w.Start >= 0 && w.Start < len(w.Code)))
	for i := range w.Code {
		c := w.Code[i]
		vAssert("fields-below-M", c.A < M && c.B < M)
		vAssert("data-model", c.Op <= 16 && c.OpMode <= 6 && c.AMode <= 7 && c.BMode <= 7)
		if legacy {
			ok, md := refLegal88(c.Op, c.AMode, c.BMode)
			vAssert("88-only-legal-instructions", ok && c.OpMode == md)
		}
	}
	vObserve("ncode", uint64(len(w.Code)))
	vObserve("start", uint64(w.Start))
}

// ---------------------------------------------------------------------
// C09

var vModeNames = []string{"$", "#", "*", "@", "{", "<", "}", ">"}
var vOpNamesUpper = []string{"DAT", "MOV", "ADD", "SUB", "MUL", "DIV", "MOD", "CMP", "SEQ", "SNE", "SLT", "JMP", "JMZ", "JMN", "DJN", "SPL", "NOP"}
var vModNamesUpper = []string{"F", "A", "B", "AB", "BA", "X", "I"}

// vSymWarrior: a warrior of the dialect with one instruction of a chosen
// form per line and symbolic fields.
func vSymWarrior(M Address, legacy bool, L int, opIdx int) *WarriorData {
	d := &WarriorData{Name: "Unknown", Author: "Anonymous", Code: make([]Instruction, L)}
	for i := 0; i < L; i++ {
		var ins Instruction
		ins.Op = vMnemonicOps[opIdx]
		if i > 0 {
			ins.Op = DAT
		}
		if vParam("vary") == 0 {
			ins.AMode = AddressMode(vPick("amode", 0, 7))
			ins.BMode = AddressMode(vPick("bmode", 0, 7))
		} else {
			ins.AMode, ins.BMode = DIRECT, B_INDIRECT
			if ins.Op == DAT {
				ins.AMode, ins.BMode = IMMEDIATE, B_DECREMENT
			}
		}
		if legacy {
			ok, md := refLegal88(ins.Op, ins.AMode, ins.BMode)
			vAssume(ok)
			ins.OpMode = md
		} else if vParam("vary") == 0 {
			ins.OpMode = OpMode(vPick("opmode", 0, 6))
		} else {
			ins.OpMode = BA
		}
		ins.A = Address(vU64("a"))
		ins.B = Address(vU64("b"))
		vAssume(ins.A < M)
		vAssume(ins.B < M)
		d.Code[i] = ins
	}
	d.Start = vPick("start", 0, L-1)
	return d
}

// vFieldText prints a field unsigned or as the equivalent negative number.
func vFieldText(v Address, M Address, signed bool) string {
	if signed {
		// -(M - v), for v > 0
		return "-" + vDecU(uint64(M-v))
	}
	return vDecU(uint64(v))
}

func VerifHarness_C09_loader() {
	M := Address(vParam("M"))
	legacy := vParam("legacy") == 1
	L := vParam("len")
	cfg := NewQuickConfig(ICWS94, M, 8, 100, Address(L))
	if legacy {
		cfg.Mode = ICWS88
	}
	d := vSymWarrior(M, legacy, L, vParam("op"))
	sp, nl, lower, extra, signedA := " ", "\n", false, 0, false
	if vParam("vary") == 1 {
		sp = []string{" ", "\t", "  "}[vPick("sp", 0, 2)]
		nl = []string{"\n", "\r\n"}[vPick("nl", 0, 1)]
		lower = vPick("lower", 0, 1) == 1
		extra = vPick("extra", 0, 3) // nothing, comment line, blank line, metadata line
		signedA = vPick("signedA", 0, 1) == 1
	}
	finalNL := vParam("finalNL") == 1
	var lines []string
	if !legacy {
		lines = append(lines, "ORG"+sp+vDec(d.Start))
	}
	for i, c := range d.Code {
		name := vOpNamesUpper[c.Op]
		if !legacy {
			name += "." + vModNamesUpper[c.OpMode]
		}
		if lower {
			name = vLower(name)
		}
		if signedA {
			vAssume(c.A > 0)
		}
		line := name + sp + vModeNames[c.AMode] + sp + vFieldText(c.A, M, signedA) + "," + sp + vModeNames[c.BMode] + sp + vFieldText(c.B, M, false)
		if i == 0 && extra == 1 {
			line += sp + "; remark"
		}
		lines = append(lines, line)
		if i == 0 {
			switch extra {
			case 1:
				lines = append(lines, "; a comment line")
			case 2:
				lines = append(lines, "")
			case 3:
				lines = append(lines, ";author Anonymous")
			}
		}
	}
	if legacy {
		lines = append(lines, "END"+sp+vDec(d.Start))
	}
	text := ""
	for i, l := range lines {
		text += l
		if i < len(lines)-1 || finalNL {
			text += nl
		}
	}
	vPrune(false)
	w, err := ParseLoadFile(vTextReader(text), cfg)
	vPrune(true)
	vAssert("canonical-text-is-read", err == nil)
	if err != nil {
		return
	}
	vAssert("roundtrip-length", len(w.Code) == L)
	if len(w.Code) != L {
		return
	}
	for i := 0; i < L; i++ {
		vAssert("roundtrip-instruction", vSameInstr(w.Code[i], d.Code[i]))
	}
	vAssert("roundtrip-entry-point", w.Start == d.Start)
	vObserve("a0", uint64(w.Code[0].A))
	vReach("end")
}

func vLower(s string) string {
	b := []byte(s)
	for i := range b {
		if b[i] >= 'A' && b[i] <= 'Z' {
			b[i] += 32
		}
	}
	return string(b)
}

// every second letter upper case, the others lower case
func vMixedCase(s string) string {
	b := []byte(vLower(s))
	n := 0
	for i := range b {
		if b[i] >= 'a' && b[i] <= 'z' {
			if n%2 == 1 {
				b[i] -= 32
			}
			n++
		}
	}
	return string(b)
}

// the same canonical text as the token stream the lexer yields for it,
// through the real scanner, parser and compiler
func VerifHarness_C09_assembler() {
	M := Address(vParam("M"))
	legacy := vParam("legacy") == 1
	L := vParam("len")
	cfg := NewQuickConfig(ICWS94, M, 8, 100, Address(L))
	if legacy {
		cfg.Mode = ICWS88
	}
	d := vSymWarrior(M, legacy, L, vParam("op"))
	lower, signedA := false, false
	if vParam("vary") == 1 {
		lower = vPick("lower", 0, 1) == 1
		signedA = vPick("signedA", 0, 1) == 1
	}
	// layout: entry point first (ORG n) or last (END n); the '88 dialect has
	// only END. The last line may lack its newline.
	endLast := legacy
	finalNL := true
	if vParam("vary") == 1 {
		if !legacy {
			endLast = vPick("endLast", 0, 1) == 1
		}
		finalNL = vPick("finalNL", 0, 1) == 1
	}
	var t []token
	if !endLast {
		t = append(t, tText("ORG"), tNum(d.Start), tNL)
	}
	for _, c := range d.Code {
		name := vOpNamesUpper[c.Op]
		if !legacy {
			name += "." + vModNamesUpper[c.OpMode]
		}
		if lower && signedA {
			// letter case may also change inside a word: mOv.aB
			name = vMixedCase(name)
		} else if lower {
			name = vLower(name)
		}
		t = append(t, tText(name), tSym(vModeNames[c.AMode]))
		if signedA {
			vAssume(c.A > 0)
			t = append(t, tSym("-"), token{tokNumber, vDecU(uint64(M - c.A))})
		} else {
			t = append(t, token{tokNumber, vDecU(uint64(c.A))})
		}
		t = append(t, tComma, tSym(vModeNames[c.BMode]), token{tokNumber, vDecU(uint64(c.B))}, tNL)
	}
	if endLast {
		t = append(t, tText("END"), tNum(d.Start), tNL)
	}
	if !finalNL {
		t = t[:len(t)-1]
	}
	t = append(t, token{tokEOF, ""})
	vUnwind(400)
	vPrune(false)
	w, err := vCompileTokens(t, cfg)
	vPrune(true)
	vUnwind(64)
	vAssert("canonical-text-assembles", err == nil)
	if err != nil {
		return
	}
	vAssert("roundtrip-length", len(w.Code) == L)
	if len(w.Code) != L {
		return
	}
	for i := 0; i < L; i++ {
		vAssert("roundtrip-instruction", vSameInstr(w.Code[i], d.Code[i]))
	}
	vAssert("roundtrip-entry-point", w.Start == d.Start)
	vReach("end")
}

// the same canonical text read under one core size and then under another,
// in one process, by the loader and by the assembler: what is read depends
// on the text and the configuration in force only (signed fields reduce by
// the current core size)
func VerifHarness_C09_history() {
	legacy := vParam("legacy") == 1
	sizes := [][2]Address{{8000, 800}, {800, 8000}, {55440, 17}, {17, 8192}}[vPick("sizes", 0, 3)]
	av := vPick("a", 1, 3)
	bv := vPick("b", 1, 3)
	op := "MOV.I"
	if legacy {
		op = "MOV"
	}
	text := op + " $ -" + vDec(av) + ", $ -" + vDec(bv) + "\n"
	for _, M := range sizes {
		cfg := NewQuickConfig(ICWS94, M, 8, 100, 1)
		if legacy {
			cfg.Mode = ICWS88
		}
		w, err := ParseLoadFile(vTextReader(text), cfg)
		vAssert("canonical-text-is-read", err == nil && len(w.Code) == 1)
		if err != nil || len(w.Code) != 1 {
			return
		}
		vAssert("loader-reduces-by-the-current-core-size", w.Code[0].A == M-Address(av) && w.Code[0].B == M-Address(bv))
		w2, err := CompileWarrior(vTextReader(text), cfg)
		vAssert("canonical-text-assembles", err == nil && len(w2.Code) == 1)
		if err != nil || len(w2.Code) != 1 {
			return
		}
		vAssert("assembler-reduces-by-the-current-core-size", w2.Code[0].A == M-Address(av) && w2.Code[0].B == M-Address(bv))
	}
	vReach("end")
}

// every mnemonic and modifier name of the dialect, upper and lower case,
// through the reader and through the assembler (fixed modes and fields)
func VerifHarness_C09_names() {
	legacy := vParam("legacy") == 1
	M := Address(8000)
	cfg := NewQuickConfig(ICWS94, M, 8, 100, 1)
	if legacy {
		cfg.Mode = ICWS88
	}
	var ins Instruction
	ins.Op = OpCode(vPick("op", 0, 16))
	ins.AMode, ins.BMode = DIRECT, B_INDIRECT
	if ins.Op == DAT {
		ins.AMode, ins.BMode = IMMEDIATE, B_DECREMENT
	}
	if legacy {
		ok, md := refLegal88(ins.Op, ins.AMode, ins.BMode)
		vAssume(ok)
		ins.OpMode = md
	} else {
		ins.OpMode = OpMode(vPick("opmode", 0, 6))
	}
	ins.A, ins.B = 5, 7993
	name := vOpNamesUpper[ins.Op]
	if !legacy {
		name += "." + vModNamesUpper[ins.OpMode]
	}
	if vPick("lower", 0, 1) == 1 {
		name = vLower(name)
	}
	text := name + " " + vModeNames[ins.AMode] + " 5, " + vModeNames[ins.BMode] + " -7\n"
	w, err := ParseLoadFile(vTextReader(text), cfg)
	vAssert("name-read-by-loader", err == nil && len(w.Code) == 1)
	if err == nil && len(w.Code) == 1 {
		vAssert("loader-name-roundtrip", vSameInstr(w.Code[0], ins))
	}
	vUnwind(400)
	w2, err2 := CompileWarrior(vTextReader(text), cfg)
	vAssert("name-read-by-assembler", err2 == nil && len(w2.Code) == 1)
	if err2 == nil && len(w2.Code) == 1 {
		vAssert("assembler-name-roundtrip", vSameInstr(w2.Code[0], ins))
	}
	vReach("end")
}
