#!/usr/bin/env python3
"""Regenerates /verif/MANIFEST.json from the table below (kept next to the specs in engine/check/specs.go)."""
import json, sys

SETUP = "cd /verif/engine && GOFLAGS=-mod=mod GOPROXY=off GOSUMDB=off GOTOOLCHAIN=local go build -o /verif/bin/gosmt ./cmd/gosmt"

TECH = "bounded symbolic execution of the real functions from go/ssa into SMT-LIB2 bit-vectors, decided by z3 5.1 (unsat = holds for every input within the case bounds; sat = model replayed natively)"

CHECKS = {
 "C01": dict(text="One instruction step of the real exec/simops/queue code is compared with an independently written ICWS'94 reference step (refStep94) for every instruction form, every core content, every program counter and every read/write limit 1..M, one solver query per (core size, process limit, addressing-mode pair); quick: (M,P) in {(3,1),(4,2),(5,2),(8,3)}, thorough: M in 3..16,24,32 x P in 1..4. A canary twin with a deliberately wrong reference must be refuted.",
             note="Trusted: the go/ssa->SMT translator (validated on every run by replaying >500 witness paths natively), z3's unsat answers (canary), refStep94 as the meaning of the ICWS'94 draft. symbolic*symbolic products and x/y, x%y with symbolic divisor are uninterpreted functions constrained by lemmas (sound for unsat; sat answers are re-decided with the exact operations). Outside: other core sizes, limits above the core, P > 4.",
             ref="5/C01"),
 "C04": dict(text="Inductive step: from an arbitrary state satisfying the representation invariant (arbitrary core, arbitrary ring-buffer states, 1..2 warriors in any state) one real exec and one real RunCycle re-establish the invariant and no run-time panic site is reachable; base: newReportSim on a configuration with every field symbolic in 0..2^20 errs or mirrors the configuration, and AddWarrior+SpawnWarrior of arbitrary code at any offset < 2^16 establishes the invariant; limits above the core size (accepted configurations) keep the safety part.",
             note="Trusted: translator (witness replay), z3, the invariant Inv of DESIGN.md section 4 as the description of reachable states. Core size is a case parameter (quick: 3,4,5,8,13; creation also 0,1,2,64); everything else symbolic.",
             ref="5/C04"),
 "C11": dict(text="After one real exec from an arbitrary state, with R and W symbolic in 1..M: every changed cell is within circular distance floor(W/2) of the pc, every newly queued address other than pc+1/pc+2 and every reported read is within floor(R/2); with R=W=M the step equals the reference step with folding disabled. Canary: the bound floor(W/2)-1 must be refuted.",
             note="Trusted: translator (witness replay), z3 (canary). Operand fetches that the simulator does not report are not observable. Core sizes: quick 3,4,5,8,13 x P 1..3.",
             ref="5/C11"),
 "C12": dict(text="2-safety, inductive: exec on a state and exec on the same state rotated by k give rotated results (core and queue), for every (pc, k) pair, every addressing-mode pair, all other fields, limits and cells symbolic; base: SpawnWarrior at off and at off+k+j*M (j<=2) give rotated states. Canary: a rotated run started one cell off must be refuted.",
             note="Trusted: translator (witness replay), z3 (canary). pc and k are enumerated concretely (so that modular index selection is canonical), core sizes quick 3,4,5 / thorough up to 13. Whole battles follow by induction together with C02 (scheduling does not inspect addresses).",
             ref="5/C12"),
 "C15": dict(text="One real exec with a fixed-shape recording listener: every changed cell is named in a write/increment/decrement report of the executing warrior, every reported cell is in the reference's may-touch set, all addresses < M and indices valid, task termination reported iff no successor was queued; one real RunCycle: a TaskPop with the popped pc precedes every other task report, warrior termination reports = deaths, cycle start/end bracket completed cycles; StateRecorder.Report from an arbitrary recorder state changes exactly the documented cells.",
             note="Trusted: translator (witness replay), z3. Core sizes quick 3,4,5,8,13.",
             ref="5/C15"),
}

CHECKS["C02"] = dict(text="The real processQueue is a bounded FIFO from every valid ring-buffer state (push appends at the back or is dropped at the limit, pop takes the front, fails exactly when empty); SPL queues the fall-through task before the new one and drops the new one at the process limit; one real RunCycle from an arbitrary invariant state with 1..2 (thorough 3) warriors equals the reference round-robin cycle (same executed (warrior, pc) pairs in loading order, deaths exactly on empty queues, early stop when one survivor remains among several, completed-cycle count, return value) where the task step on both sides is the real exec (C01 fixes what a task does); Run() from any battle in progress ends in the same state as the cycle-by-cycle driver and terminates within maxCycles+1 iterations. Canary: a reference that counts the unfinished cycle must be refuted.",
             note="Trusted: translator (witness replay), z3 (canary), the reference cycle of DESIGN.md appendix B. Bounds: M in 3..5 (thorough ..8), P 1..2(3), n <= 2 (3), Run: maxCycles <= 3 (5).",
             ref="5/C02")
CHECKS["C13"] = dict(text="Every sequence of API calls up to the stated depth from a fresh simulator (AddWarrior with symbolic code, SpawnWarrior with index in -2..count+2 and any offset < 2^16, RunCycle, Run, Reset, GetWarrior, GetMem, warrior queries) is executed on the real code with the call chosen nondeterministically: no panic site is reachable, inapplicable calls err / return nil and leave the observable state unchanged, applicable calls match the reference state machine (spawn loads code and queues (off+Start) mod M, RunCycle/Run equal the reference scheduler, Reset clears), Run terminates within maxCycles+1 iterations (unwinding assertion); from an arbitrary non-steppable state (finished, empty or never-started battle, some warriors without a queue) RunCycle and Run change nothing and return; Reset + re-spawn equals a fresh simulator, also after one more cycle.",
             note="Trusted: translator (witness replay), z3, the reference state machine of DESIGN.md appendix B (steppable = what cmd/vmars guards). Bounds: M=3 (thorough 4), P 1..2, depth 2 from fresh / 1 after a spawned prefix (thorough 3 / 2), code length 1..2. No sampling beyond the exhaustive depth.",
             ref="5/C13")
CHECKS["C06"] = dict(text="assembleLine (real) on a source line whose op field ranges over every mnemonic in three letter cases, bare or with each of the seven modifiers (plus undefined spellings), whose mode fields range over the eight mode characters, omitted and junk, with one or two operands: whenever it succeeds every field is below the core size, opcode/modifier/modes are inside the data model, under ICWS'88 the emitted (op, modes, modifier) satisfies an independently written '88 legality table, and the instruction is the one the line denotes (C03/K3); operand values 0, 1, 7, M-1, M, M+1, 2M+3, 2^31-1, 2^31 with either sign reduce to the right residue; compile (real) on line lists of 0..3 instructions with ORG/END directives whose operand is any signed value up to 2^20: on success the entry point lies inside the code (or is 0 for an empty program) and the program is no longer than the configured maximum length, on error no warrior is returned.",
             note="Trusted: translator (witness replay), z3, go/types.Eval on concrete expression text (executed natively) and a small model of it for 'sign* numeral' ropes, the '88 table of DESIGN.md appendix C. Token level only (the lexer/parser path is C05/C03). Core sizes 8, 8000 (thorough 3, 8192, 55440).",
             ref="5/C06")
CHECKS["C07"] = dict(text="The sign-rewriting stage of expression evaluation (combineSigns then flipDoubleNegatives, real code) preserves the denoted expression on every token sequence over {+, -, other operator, (, ), literal} up to length 5 (thorough 6) that does not end in an operator, compared through an independently written normal form of sign runs (unary run = parity of minus signs, binary run = first sign is the operator); the output never contains two adjacent equal signs (which Go would lex as ++ / --) and keeps all non-sign tokens in order.",
             note="Trusted: translator (witness replay), z3, the normal form of DESIGN.md appendix D. This is kernel E1 of the design; E2..E4 (glue with EQU substitution, reduction, literals) are covered at chosen values by C06_line and are otherwise outside this check. Exactness of Go's constant arithmetic (go/types) is trusted.",
             ref="5/C07")
CHECKS["C05"] = dict(text="The real lexer on every rune sequence up to length 2 (thorough 3) over ASCII and U+FFFD (symbolic tape): returns, delivers exactly one terminal token and delivers it last, token count linear, its producer goroutine finishes, no panic; the real CompileWarrior on every sequence of up to 2 (thorough 3) words of an 18-word token-soup vocabulary (for rof equ dat end labels numbers operators comma newline comment colon '=' '!' paren) with and without a final newline: returns within the derived loop bounds, error xor warrior, entry point inside the code, no goroutine parked (coroutine model of the unbuffered-channel producer/consumer pairs), no consumer blocked forever; FOR with a symbolic count 0..4 (and negated) emits the body exactly count times within count+c iterations; compile on every pair of EQU definitions of length <= 2 (thorough 3) over {x, y, +, 1} with and without an ;assert line: terminates (unwinding assertion on the substitution fix-point), cyclic definitions rejected.",
             note="Trusted: translator (witness replay incl. goroutine counts and time budgets), z3, the coroutine scheduling (one representative interleaving of producer and consumer; they share no memory on the Tokens() path). Wall-clock time and RSS are outside the technique; termination is decided as loop-bound (unwinding) assertions. Multi-byte UTF-8 letters and longer inputs are outside the bound.",
             ref="5/C05")
CHECKS["C03"] = dict(text="Table kernels over their whole domains: the real default-modifier function equals an independently written ICWS'94 table on all 17x8x8 (op, amode, bmode), the real '88 validator accepts exactly the legal '88 combinations with the implied modifier; token level (real scanner, FOR pass loop, parser, compiler): a program with labels, forward and backward references, an EQU used before/between/after its definition, ORG / END label / bare END, ;name and ;author comments and symbolic operand literals assembles to the by-construction meaning for every combination of colon suffixes, labels on their own line, comment or blank filler lines, two label spellings and three letter cases; text level (real lexer included): the same program under both dialects with blanks/tabs, LF/CR-LF, trailing comments, spaced commas, with and without a final newline. Line-level denotation (defaults, lone operand, undefined spellings) is asserted by C06_line.",
             note="Trusted: translator (witness replay), z3, go/types.Eval (real on concrete text; modelled and self-tested against the real function on symbolic literals), the tables of DESIGN.md appendix C (NOP defaults to .B: gmars' documented dialect). One program family of 3 instructions + 1 EQU; longer programs and multi-line EQU are outside.",
             ref="5/C03")
CHECKS["C08"] = dict(text="Token level through the real scan/expand pass loop, parser and compiler: a family of programs with a FOR block whose count is a symbolic value 0..2 (thorough 3) given as a literal, an EQU name or EQU+1, the counter used in both operand fields, an optional nested block with its own symbolic count, an optional second block in sequence, an optional block label referenced from after the block, optional preceding instruction - the FOR program, its manual unrolling (built by the harness) and the by-construction meaning assemble to the same code and entry point; 1, 3 and 12 single-iteration blocks in sequence assemble to one instruction each.",
             note="Trusted: translator (witness replay), z3, Eval model (self-tested). Known finding (listed in known_findings.json, probed on every run): 13 or more blocks needing separate expansion passes are refused ('for loop depth exceeded'). Counts above 3, nesting depth 3, '&' concatenation and FOR inside EQU are outside the bound.",
             ref="5/C08")
CHECKS["C14"] = dict(text="Decided by sequential symbolic execution: (copy isolation) after AddWarrior, arbitrary changes to the caller's WarriorData (code, entry point, name) do not show in what SpawnWarrior loads and queues, and a cycle of the battle changes neither the caller's data nor the simulator's pristine copy; (repeatability) the C03 program family with a chain of two EQUs assembles to the by-construction meaning under 12 (thorough 48) different permutations applied at every map range statement; (footprint) a whole job - assemble a text, create a reporting simulator with a StateRecorder, add, spawn, run two cycles - performs no store to any package-level variable after initialisation and leaves the shared configuration and warrior data unchanged, which is the condition under which jobs sharing only configuration values and warrior data cannot conflict.",
             note="The schedule quantifier of the property (thread counts, interleavings under the race detector) is NOT explored: there is no interleaving model in this technique; the footprint obligation is a sufficient condition decided path by path within the bounds. Trusted: translator, z3, thread-safety of fmt and go/types internals.",
             ref="5/C14")
CHECKS["C16"] = dict(text="The real LoadCode / addressSigned / String methods with fmt.Sprintf modelled as a rope builder: for every opcode x modifier x mode pair of the dialect (ICWS'94: all 17x7x8x8 forms; ICWS'88: every legal '88 instruction with the implied modifier) with fields on both sides of the sign boundary, and for symbolic field values over the whole range [0,M) with entry point anywhere in a 1..2 line warrior, the listing read back by a harness-side reader written from the pMARS conventions (ORG START first / END START last and no modifiers in '88, START label, signed fields, comma) denotes the same instructions (fields modulo M) and entry point, with exactly one START line; String() followed by the real name decoders is the identity on the whole data model.",
             note="Trusted: translator (witness replay), z3, the model of fmt.Sprintf (%s %d with widths and left alignment; the padding produced by widths is modelled exactly by case split on the rendered length). Core sizes 3, 8, 8000, 8001 (thorough + 8192, 55440). Warriors longer than 2 (thorough 3) lines are outside.",
             ref="5/C16")
CHECKS["C09"] = dict(text="A symbolic warrior of the dialect (every mode pair and modifier of '94 / every legal '88 instruction for the opcodes MOV, DAT, DJN in the quick tier, 11 opcodes in the thorough tier; fields symbolic over [0,M); every entry point) printed in the canonical load-file layout is read back by the real ParseLoadFile (rope text, real line loop and field decoding) and assembled by the real scanner/parser/compiler (token stream of the same text): both reproduce exactly the instructions and entry point; layout variations - separators blank/tab/double blank, LF or CR-LF, lower-case mnemonics, a trailing comment, a comment / blank / ;author line in between, the A field printed as the equivalent negative number, with and without a final newline - do not change what is read.",
             note="Trusted: translator (witness replay), z3, exact rope-level models of strings.Fields/Split/ReplaceAll/ToLower/Contains/HasPrefix/TrimSpace, bufio.ReadString and strconv.ParseInt (numerals are atoms without separators). The assembler path is at token level (the lexer's byte-level behaviour is C05/C03_text). Core size 8000 (thorough 8, 8192); 1..2 (3) lines.",
             ref="5/C09")
CHECKS["C10"] = dict(text="ParseLoadFile (real, both dialects) on every file of 1 line over 18 line kinds (blank, comment, ;name, a bare ;strategy, valid instruction lines in two layouts with symbolic signed operands up to 2^20, missing comma, deleted / duplicated fields, unknown mnemonic, junk mode, non-numeric field, ORG with symbolic signed operand, bare ORG, END, END n, '94-only modes, modifier-less MOV with #B) and every 2-line (thorough 3-line) file over a 7-kind subset, each with LF or CR-LF and with or without a final newline: terminates, never panics (incl. the metadata slicings), returns an error or a warrior whose entry point lies inside the code, whose fields are below M, which is legal under ICWS'88 when that rule set is selected; a corrupted line makes the read fail and the number of instructions equals the number of instruction lines before the end marker.",
             note="Trusted: translator (witness replay), z3, the rope-level string models (as C09). Corruptions inside a numeral or mnemonic are represented by the vocabulary (non-numeric field, unknown mnemonic) rather than byte-level truncation. Longer files are outside.",
             ref="5/C10")
CHECKS = dict(sorted(CHECKS.items()))

NOT_YET = {
}

def main():
    checks = []
    for pid in sorted(CHECKS):
        c = CHECKS[pid]
        checks.append({
            "property_id": pid,
            "quick_cmd": f"/verif/bin/gosmt check -property {pid} -tier quick",
            "thorough_cmd": f"/verif/bin/gosmt check -property {pid} -tier thorough",
            "evidence_file": f"/verif/evidence/{pid}.json",
            "replay_cmd_template": "/verif/bin/gosmt replay {path}",
            "engine": "gosmt",
            "level_claimed": {"category": "model_checking", "text": c["text"], "design_ref": c["ref"]},
            "level_note": c["note"],
            "technique": TECH,
        })
    props = [json.loads(l)["id"] for l in open("/verif/properties.jsonl")]
    na = []
    for pid in props:
        if pid in CHECKS:
            continue
        na.append({"property_id": pid, "reason": NOT_YET.get(pid, "check under construction in this session (see DESIGN.md section 5); not claimed until its harness runs clean")})
    m = {
        "version": 1,
        "setup_cmd": SETUP,
        "hooks": {
            "guard": "verif",
            "enable": "none needed: harnesses are injected as go/packages overlays and go test -overlay files; /repo is never written by the checks",
            "baseline_off_cmd": "cd /repo && go test -vet=off -count=1 -timeout 25m ./...",
            "source_commits": [],
            "add_only": True,
        },
        "engines": [{"name": "gosmt", "path": "/verif/engine", "serves_properties": sorted(CHECKS), "kind_free_text": "symbolic execution of go/ssa (x/tools v0.29.0) into SMT-LIB2 bit-vectors with state merging, interval-justified narrowing and uninterpreted arithmetic with lemmas; z3 5.1 (z3-new) back end over one persistent process per job; every sat model and a sample of witness paths are replayed against the native build through go test -overlay"}],
        "checks": checks,
        "not_applicable": na,
        "notes": "fix: commits in /repo (genuine defects found by these checks) are listed in /verif/known_findings.json as fixed entries.",
    }
    json.dump(m, open("/verif/MANIFEST.json", "w"), indent=1)

main()
