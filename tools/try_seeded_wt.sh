#!/bin/bash
# like try_seeded.sh, but checks a scratch worktree (VERIF_REPO) instead of
# patching /repo: for use while something else is reading /repo
set -u
D=$1; P=$2; TIER=${3:-quick}
WT=/tmp/wt/verify_$$
git -C /repo worktree add --detach $WT HEAD >/dev/null 2>&1 || exit 3
cleanup() { git -C /repo worktree remove --force $WT >/dev/null 2>&1; }
trap cleanup EXIT
DEMO=$WT/zz_seeded_test.go; PKG=.
if head -3 $D/demo_test.go | grep -q "^package main"; then DEMO=$WT/cmd/gmars/zz_seeded_test.go; PKG=./cmd/gmars; fi
cp $D/demo_test.go $DEMO
( cd $WT && timeout 120 go test -vet=off -count=1 -run TestSeeded $PKG >/tmp/seed_base_$$.log 2>&1 ); BASE=$?
git -C $WT apply $D/patch.diff || { echo "PATCH-DOES-NOT-APPLY"; exit 3; }
( cd $WT && go build . ./cmd/gmars >/tmp/seed_build_$$.log 2>&1 ) || { echo "DOES-NOT-BUILD"; exit 3; }
( cd $WT && timeout 120 go test -vet=off -count=1 -run TestSeeded $PKG >/tmp/seed_mut_$$.log 2>&1 ); MUT=$?
rm $DEMO
( cd $WT && timeout 300 go test -vet=off -count=1 . >/tmp/seed_suite_$$.log 2>&1 ); SUITE=$?
echo "demo on original: exit $BASE (want 0); demo with change: exit $MUT (want != 0); existing suite with change: exit $SUITE (want 0)"
if [ $BASE -ne 0 ] || [ $MUT -eq 0 ] || [ $SUITE -ne 0 ]; then echo "NOT-CONFIRMED"; exit 4; fi
START=$(date +%s)
VERIF_REPO=$WT /verif/bin/gosmt check -property $P -tier $TIER > /tmp/seed_check_$$.log 2>&1; RC=$?
END=$(date +%s)
echo "check $P ($TIER) exit $RC in $((END-START)) s"
grep -m3 "^VIOLATION\|^INCONCLUSIVE" /tmp/seed_check_$$.log | cut -c1-300
grep -A1 -m1 "^VIOLATION" /tmp/seed_check_$$.log | tail -1 | cut -c1-300
tail -1 /tmp/seed_check_$$.log | cut -c1-200
cp /tmp/seed_check_$$.log $D/check.log 2>/dev/null; rm -f /tmp/seed_*_$$.log; exit $RC
