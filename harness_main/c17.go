package main

import (
	"fmt"
	"strings"

	"github.com/bobertlo/gmars"
)

// C17 — the command-line tool reports the battles it was asked to run.
// main() (real code) is executed with the flag / file / exit / random /
// standard-output environment modelled; the expected tallies are computed by
// the harness through the library API (whose battles are the subject of
// C01/C02), so this check isolates what main itself adds: the mapping from
// options to a configuration, the placement of the second warrior, the
// rounds loop and the win / tie bookkeeping and printing.

func init() {
	vHarness["C17_main"] = VerifHarness_C17_main
}

var vWarriorTexts = []string{
	"mov.i $0, $1\n",          // imp: survives
	"dat #0, #0\n",            // dies at once
	"jmp $0\n",                // spins in place: survives
	"spl $0\nmov.i #0, $-1\n", // survives, modifies its own cells
	"nop $0\ndat #0\n",        // dies in its second cycle
	"mov.i $2, $6\njmp $-1\ndat #0, #0\n", // (first warrior only) bombs the cell 6 ahead of it: a second warrior placed closer than the legal minimum is hit
}

// the same warriors without modifiers for the ICWS'88 rule set
var vWarriorTexts88 = []string{
	"mov $0, $1\n",
	"dat #0, #0\n",
	"jmp $0\n",
	"spl $0\nmov #0, $-1\n",
	"jmp $1\ndat #0\n",
	"mov $2, $6\njmp $-1\ndat #0, #0\n",
}

// vOutcome runs one battle through the library and reports who is alive.
func vOutcome(cfg gmars.SimulatorConfig, w []gmars.WarriorData, w2start gmars.Address) (bool, bool) {
	sim, err := gmars.NewSimulator(cfg)
	if err != nil {
		panic(err)
	}
	a, _ := sim.AddWarrior(&w[0])
	sim.SpawnWarrior(0, 0)
	var b gmars.Warrior
	if len(w) > 1 {
		b, _ = sim.AddWarrior(&w[1])
		sim.SpawnWarrior(1, w2start)
	}
	sim.Run()
	if b == nil {
		return a.Alive(), false
	}
	return a.Alive(), b.Alive()
}

func VerifHarness_C17_main() {
	nw := vParam("warriors") // 1 or 2 warrior files
	use88 := vParam("use88") == 1
	preset := vParam("preset") // 0: options, 1: -preset nopnano
	fixed := vParam("fixed")   // 0: random placement, otherwise -F value
	rounds := vPick("rounds", 1, vParam("maxRounds"))
	size, procs, cycles, length := 16, 3, 6, 4 // 6 cycles: the two warriors cannot reach each other
	texts, texts88 := vWarriorTexts, vWarriorTexts88
	if fixed != 0 && nw == 2 {
		// with a fixed placement the first warrior may also be a bomber aimed
		// exactly at the second one's first cell: the battle's outcome then
		// depends on the placement actually used and on the write distance
		texts = append(append([]string(nil), texts...), fmt.Sprintf("mov.i $2, $%d\njmp $-1\ndat #0, #0\n", fixed))
		texts88 = append(append([]string(nil), texts88...), fmt.Sprintf("mov $2, $%d\njmp $-1\ndat #0, #0\n", fixed))
	}
	i1 := vPick("w1", 0, len(texts)-1)
	i2 := 0
	if nw == 2 {
		i2 = vPick("w2", 0, len(vWarriorTexts)-2)
	}
	t1, t2 := texts[i1], texts[i2]
	if use88 && preset == 0 {
		t1, t2 = texts88[i1], texts88[i2]
	}

	var cfg gmars.SimulatorConfig
	if preset == 1 {
		vSetFlagStr("preset", "nopnano")
		cfg = gmars.ConfigNopNano
		// the other options are ignored with a preset: give them odd values
		// (a core size below the placement, a length above the preset's)
		vSetFlagInt("s", 7)
		vSetFlagInt("l", 9)
		if use88 {
			// -8 is one of them: the preset names its own rule set, and the
			// warriors keep their '94 spelling (modifiers), which an '88
			// assembly would reject
			vSetFlagBool("8", true)
		}
	} else {
		vSetFlagInt("s", size)
		vSetFlagInt("p", procs)
		vSetFlagInt("c", cycles)
		vSetFlagInt("l", length)
		mode := gmars.ICWS94
		if use88 {
			vSetFlagBool("8", true)
			mode = gmars.ICWS88
		}
		// what the options mean, written out field by field (not through
		// the library's own constructor)
		cfg = gmars.SimulatorConfig{Mode: mode, CoreSize: gmars.Address(size), Processes: gmars.Address(procs), Cycles: gmars.Address(cycles),
			ReadLimit: gmars.Address(size), WriteLimit: gmars.Address(size), Length: gmars.Address(length), Distance: gmars.Address(length)}
	}
	if fixed != 0 {
		vSetFlagInt("F", fixed)
	}
	vSetFlagInt("r", rounds)
	vSetFile("w1.red", t1)
	if nw == 2 {
		vSetFile("w2.red", t2)
	}

	vUnwind(2000)
	vPrepareMain()
	main()
	out := vStdout()

	// expected: every warrior of the list behaves the same wherever the
	// second one is placed (they only touch their own neighbourhood), so the
	// reference battle at any legal placement gives the outcome of every round
	var ws []gmars.WarriorData
	w1, err := gmars.CompileWarrior(strings.NewReader(t1), cfg)
	vAssert("warrior-1-assembles", err == nil)
	ws = append(ws, w1)
	if nw == 2 {
		w2, err := gmars.CompileWarrior(strings.NewReader(t2), cfg)
		vAssert("warrior-2-assembles", err == nil)
		ws = append(ws, w2)
	}
	place := gmars.Address(fixed)
	if fixed == 0 {
		place = 2 * cfg.Length
	}
	a1, a2 := vOutcome(cfg, ws, place)
	w1win, w1tie, w2win, w2tie := 0, 0, 0, 0
	for r := 0; r < rounds; r++ {
		if nw == 1 {
			if a1 {
				w1win++
			}
			continue
		}
		switch {
		case a1 && a2:
			w1tie++
			w2tie++
		case a1:
			w1win++
		case a2:
			w2win++
		}
	}
	want := fmt.Sprintf("%d %d\n", w1win, w1tie)
	if nw == 2 {
		want += fmt.Sprintf("%d %d\n", w2win, w2tie)
	}
	vAssert("stdout-equals-tallies", out == want)
	if nw == 2 {
		vAssert("each-round-counted-once", w1win+w2win+w1tie == rounds || !(a1 || a2))
	}
	vObserveStr("stdout", out)
	vReach("end")
}
