package main

// Native side of the command-line model used by the C17 harness: flags and
// files set by the harness become a real argument vector and real temporary
// files, main() runs in-process with standard output captured.

import (
	"flag"
	"io"
	"math/rand"
	"os"
	"path/filepath"
	"strconv"
)

var (
	vCLIFlags []string
	vCLIFiles []string
	vCLIDir   string
	vCLIOld   *os.File
	vCLIRead  *os.File
	vCLIDone  chan string
)

func vSetFlagInt(name string, v int) { vCLIFlags = append(vCLIFlags, "-"+name, strconv.Itoa(v)) }
func vSetFlagBool(name string, v bool) {
	if v {
		vCLIFlags = append(vCLIFlags, "-"+name)
	}
}
func vSetFlagStr(name string, v string) { vCLIFlags = append(vCLIFlags, "-"+name, v) }

func vSetFile(name string, text string) {
	if vCLIDir == "" {
		d, err := os.MkdirTemp("", "c17-")
		if err != nil {
			panic(err)
		}
		vCLIDir = d
	}
	p := filepath.Join(vCLIDir, name)
	if err := os.WriteFile(p, []byte(text), 0o644); err != nil {
		panic(err)
	}
	vCLIFiles = append(vCLIFiles, p)
}

// vSeedRand makes the global math/rand source produce the recorded draws
// (a seed is searched for; the draws are few and their ranges small).
func vSeedRand() {
	want := vRec.Values["rand"]
	ns := vRec.Values["randN"]
	if len(want) == 0 || len(ns) != len(want) {
		return
	}
	for seed := int64(1); seed < 5_000_000; seed++ {
		r := rand.New(rand.NewSource(seed))
		ok := true
		for i := range want {
			if uint64(r.Intn(int(ns[i]))) != want[i] {
				ok = false
				break
			}
		}
		if ok {
			rand.Seed(seed)
			return
		}
	}
}

func vPrepareMain() {
	vSeedRand()
	os.Args = append(append([]string{"gmars"}, vCLIFlags...), vCLIFiles...)
	flag.CommandLine = flag.NewFlagSet("gmars", flag.ExitOnError)
	r, w, err := os.Pipe()
	if err != nil {
		panic(err)
	}
	vCLIOld = os.Stdout
	os.Stdout = w
	vCLIRead = r
	vCLIDone = make(chan string, 1)
	go func() {
		b, _ := io.ReadAll(r)
		vCLIDone <- string(b)
	}()
}

func vStdout() string {
	w := os.Stdout
	os.Stdout = vCLIOld
	w.Close()
	out := <-vCLIDone
	vCLIRead.Close()
	if vCLIDir != "" {
		os.RemoveAll(vCLIDir)
	}
	vCLIFlags, vCLIFiles, vCLIDir = nil, nil, ""
	return out
}

func vExitStatus() int { return -1 }
